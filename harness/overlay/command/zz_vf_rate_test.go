//go:build verif

package command

// C15 harness (timed half): probes paced by the real go.uber.org/ratelimit limiter built from a --rate string the
// way the commands do it: genericScanCmdOpts.newScanEngine (application path: limiter + real GenericEngine + real
// generators) and packet.NewRateLimitReadWriter around a recording writer behind the real sender (packet path).
// Start times are recorded; RateTrace.tla checks the spacing bound.

import (
	"context"
	"fmt"
	"net"
	"os"
	"strings"
	"sync"
	"sync/atomic"
	"testing"
	"time"

	"github.com/google/gopacket"
	"github.com/v-byte-cpu/sx/pkg/packet"
	"github.com/v-byte-cpu/sx/pkg/scan"
	"go.uber.org/ratelimit"
)

type vfRateScanner struct {
	t0      time.Time
	mu      sync.Mutex
	times   []int
	n       int64
	slowN   int64 // the first slowN probes take slowFor (all workers busy: nobody asks the limiter meanwhile)
	slowFor time.Duration
	hangAt  int64 // this probe alone takes hangFor (one worker: the sender is held up, demand piles up behind it)
	hangFor time.Duration
}

func (s *vfRateScanner) Scan(ctx context.Context, r *scan.Request) (scan.Result, error) {
	t := int(time.Since(s.t0) / time.Microsecond)
	s.mu.Lock()
	s.times = append(s.times, t)
	s.mu.Unlock()
	k := atomic.AddInt64(&s.n, 1)
	if k <= s.slowN {
		time.Sleep(s.slowFor)
	}
	if k == s.hangAt {
		time.Sleep(s.hangFor)
	}
	return nil, nil
}

type vfRateWriter struct {
	t0    time.Time
	times []int
}

func (w *vfRateWriter) WritePacketData(pkt []byte) error {
	w.times = append(w.times, int(time.Since(w.t0)/time.Microsecond))
	return nil
}
func (w *vfRateWriter) ReadPacketData() ([]byte, *gopacket.CaptureInfo, error) {
	time.Sleep(time.Hour)
	return nil, nil, nil
}

// vfStallMon: a goroutine that sleeps 200 us at a time and remembers when it overslept - the harness's own measure of how far the
// process (or the whole machine) was from running in real time while a timed run was going on
type vfStallMon struct {
	mu     sync.Mutex
	stalls [][2]time.Time // (moment, moment + oversleep)
	stop   chan struct{}
}

func vfStartStallMon() *vfStallMon {
	m := &vfStallMon{stop: make(chan struct{})}
	go func() {
		for {
			select {
			case <-m.stop:
				return
			default:
			}
			t := time.Now()
			time.Sleep(200 * time.Microsecond)
			if d := time.Since(t) - 200*time.Microsecond; d > 2*time.Millisecond {
				m.mu.Lock()
				m.stalls = append(m.stalls, [2]time.Time{t, t.Add(d)})
				m.mu.Unlock()
			}
		}
	}()
	return m
}

// worst oversleep (us) that overlapped [from, to]
func (m *vfStallMon) worst(from, to time.Time) int {
	m.mu.Lock()
	defer m.mu.Unlock()
	w := 0
	for _, s := range m.stalls {
		if s[1].After(from) && s[0].Before(to) {
			if d := int(s[1].Sub(s[0]) / time.Microsecond); d > w {
				w = d
			}
		}
	}
	return w
}

func vfRateEvent(rate string, path string, workers int, times []int, expected int) map[string]interface{} {
	n, w, err := parseRateLimit(rate)
	if err != nil {
		panic(err)
	}
	return map[string]interface{}{"ev": "Run", "rate": rate, "chars": strings.Split(rate, ""), "path": path, "workers": workers, "n": n,
		"winMs": int(w / time.Millisecond), "winNs": int(w % time.Millisecond), "times": times, "expected": expected, "tight": false}
}

func TestVfRate(t *testing.T) {
	out := vfOpenOut(t, "VF_OUT")
	defer out.close()
	thorough := os.Getenv("VERIF_TIER") == "thorough"
	_, subnet, _ := net.ParseCIDR("10.90.0.0/25") // 128 targets
	type job struct {
		rate    string
		workers int
		stall   bool
		hangAt  int // high rates: one probe hangs for 60 ms, then demand is unbounded; judged with the measured lateness only
	}
	jobs := []job{{"400/s", 1, false, 0}, {"200/s", 3, false, 0}, {"40/100ms", 100, false, 0}, {"3/10ms", 7, false, 0}, {"150/s", 50, true, 0},
		{"10000/s", 1, true, 20}, {"4000/s", 1, true, 50}}
	if thorough {
		jobs = append(jobs, job{"1000/s", 1000, false, 0}, job{"60/200ms", 2, false, 0}, job{"100/s", 100, true, 0}, job{"1/5ms", 1, false, 0},
			job{"50000/s", 1, true, 100}, job{"2500/s", 2, true, 30})
	}
	var mu sync.Mutex
	var wg sync.WaitGroup
	mon := vfStartStallMon()
	defer close(mon.stop)
	// a run during which the process was held up for more than 10 ms is repeated (at most twice): its times measure the machine, not sx
	attempt := func(run func() map[string]interface{}) {
		defer wg.Done()
		var ev map[string]interface{}
		for k := 0; k < 3; k++ {
			from := time.Now()
			ev = run()
			ev["stallUs"], ev["attempts"] = mon.worst(from, time.Now()), k+1
			if ev["stallUs"].(int) <= 10000 {
				break
			}
		}
		mu.Lock()
		out.write([]map[string]interface{}{ev})
		mu.Unlock()
	}
	for _, j := range jobs {
		j := j
		wg.Add(1)
		go attempt(func() map[string]interface{} {
			// application path, wired by the command's own constructor
			o := &genericScanCmdOpts{workers: j.workers, portRanges: []*scan.PortRange{{StartPort: 1080, EndPort: 1080}}}
			var err error
			if o.rateCount, o.rateWindow, err = parseRateLimit(j.rate); err != nil {
				panic(err)
			}
			sc := &vfRateScanner{t0: time.Now()}
			tgt, ntgt := subnet, 128
			if j.hangAt > 0 {
				sc.hangAt, sc.hangFor = int64(j.hangAt), 60*time.Millisecond
				_, tgt, _ = net.ParseCIDR("10.90.0.0/23")
				ntgt = 512
			} else if j.stall {
				sc.slowN, sc.slowFor = int64(j.workers), 700*time.Millisecond
			}
			ctx, cancel := context.WithCancel(context.Background())
			engine := o.newScanEngine(ctx, sc)
			done, errc := engine.Start(ctx, &scan.Range{DstSubnet: tgt, Ports: o.portRanges})
			go func() {
				for range errc {
				}
			}()
			select {
			case <-done:
			case <-time.After(60 * time.Second):
			}
			cancel()
			sc.mu.Lock()
			ev := vfRateEvent(j.rate, "app", j.workers, append([]int{}, sc.times...), ntgt)
			ev["tight"] = j.hangAt > 0
			sc.mu.Unlock()
			return ev
		})
		if j.stall {
			continue
		}
		wg.Add(1)
		go attempt(func() map[string]interface{} {
			// packet path: the limiter wrapper around the writer, behind the real sender
			n, w, _ := parseRateLimit(j.rate)
			rw := &vfRateWriter{t0: time.Now()}
			var prw packet.ReadWriter = packet.NewRateLimitReadWriter(rw, ratelimit.New(n, ratelimit.Per(w)))
			in := make(chan *packet.BufferData, 128)
			for i := 0; i < 128; i++ {
				buf := packet.NewSerializeBuffer()
				_ = gopacket.SerializeLayers(buf, gopacket.SerializeOptions{}, gopacket.Payload([]byte{byte(i)}))
				in <- &packet.BufferData{Buf: buf}
			}
			close(in)
			ctx, cancel := context.WithCancel(context.Background())
			done, errc := packet.NewSender(prw).SendPackets(ctx, in)
			go func() {
				for range errc {
				}
			}()
			select {
			case <-done:
			case <-time.After(60 * time.Second):
			}
			cancel()
			return vfRateEvent(j.rate, "packet", 1, rw.times, 128)
		})
	}
	wg.Wait()
	fmt.Printf("VF_RUNS=%d\n", out.n)
}
