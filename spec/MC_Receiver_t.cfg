SPECIFICATION Spec
CONSTANTS MaxLen = 5 CapErr = 2 AllowCancel = TRUE
INVARIANTS Safe NoCancelExact ReadingContinues ClosedLast
PROPERTIES Ends CancelEnds ClosedIsSeen
CHECK_DEADLOCK FALSE
