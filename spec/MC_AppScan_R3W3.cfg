SPECIFICATION Spec
CONSTANTS R = 3 W = 3 CapReq = 1 CapRes = 1 CapErr = 1 AllowCancel = FALSE DelayLongEnough = TRUE
INVARIANTS ProbedAtMostOnce NoPanic NoDupLines OnlyHitsPrinted DoneAfterAll Exact
PROPERTIES Returns ObsSpec
CHECK_DEADLOCK FALSE
