"""C02 — confinement: nothing outside the target set or inside exclusions is probed; non-IPv4 targets are refused.
Spec: Targets.tla (Confined; TLC exhaustive), IPv4.tla + TargetsCheck.tla (Denote with exclusions on concrete CIDRs), TargetParse.tla
(reference grammar of a target argument: IPv4 host / IPv4 CIDR / everything else refused)."""
import json
import os
import vf
from checks import targets_common as tc
from checks import wire_tier as wt

LEVEL = "model_checking"
LEVEL_TEXT = ("TLC checks Confined on Targets (no request for an excluded or foreign address, at every step, every specification of the abstract universe). "
              "TLC-generated concrete (subnet, exclusion list) pairs - hosts, nested / overlapping CIDRs, the whole subnet, unrelated nets, comments and blank "
              "lines in the file - run through the real parseExcludeFile + cidranger + filter over the real generators; TLC decides histogram = Denote. "
              "Target strings generated from the reference grammar TargetParse (all 4-octet combinations over boundary numerals x prefix suffixes, IPv6 / "
              "IPv4-mapped / garbage forms) go through the real ParseIPNet: TLC decides refused / accepted-with-exactly-this-network.")
NOTE = ("Trusted: TLC, the IPv4 octet arithmetic and the reference grammar. 'Refused before anything is sent' is checked at ParseIPNet, which every command "
        "calls before opening a socket; the process-level exit status needs the socket-level tier.")
TECHNIQUE = "TLA+ model checking (TLC) + spec-generated exclusion lists / target strings replayed through the real parser, filter and generators"
DESIGN_REF = "DESIGN.md section 5, C02"


def run(ctx):
    if ctx.replay:
        return vf.replay_trace(ctx, ctx.replay)
    quick = ctx.tier == "quick"
    ctx.cov["rule"] = ("concrete: nets x range lists x exclusion lists from TLC (those with a non-empty exclusion list); abstract: specifications with an "
                       "exclusion filter; strings: 9^4 octet combinations x 9 suffixes + IPv6 forms from TargetParse; distinct = specifications / strings")
    ctx.tlc_mc("Targets", "MC_Targets", workers=16, timeout=1200)
    sc = [s for s in tc.denote_runs(ctx, full=not quick) if s["exclude"]]
    if quick:
        sc = sc[::3]
    trace = tc.run_parallel(ctx, "^TestVfDenote$", sc, "c02d", procs=12)
    tc.validate_denote(ctx, trace, "C02", "c02d")
    sa, total = tc.abstract_scenarios(ctx, 2, 2, 2, {"subnet", "hosts", "pairs", "filexports", "filehosts"}, 2500 if quick else 30000,
                                      want=lambda s: s["useFilter"])
    t2 = tc.run_parallel(ctx, "^TestVfTargets$", sa, "c02a", procs=8)
    vf.validate_runs(ctx, "TargetsTrace", t2, cfg="TargetsTrace_A2", keyfn=tc.target_key, label="abstract specifications with exclusions", timeout=3000)
    # target strings
    parse_strings(ctx, quick)
    # socket-level tier: a non-IPv4 target makes the real binary exit non-zero without a frame or a connection; exclusions on the wire
    n3, rej = wt.run_wire(ctx, select=lambda s: s["expect"]["kind"] == "refuse" or "exclude" in s["name"], label="c02w", focus="refuse")
    wt.report(ctx, "C02", rej)
    # ... and the peer address of every connection of the HTTP application scans, with a proxy named in the environment and with servers
    # that answer with a redirect to a host outside the target set
    n4, rej = wt.run_wire(ctx, select=lambda s: "exclude" in s["name"] or s["expect"]["kind"] in ("app", "apphttp"), label="c02x", focus="coverage")
    wt.report(ctx, "C02", rej)
    runs = vf.read_ndjson(trace)
    for r0 in runs[:2]:
        ctx.sample({k: (v if k != "hist" else v[:5]) for k, v in r0.items()})


def parse_strings(ctx, quick):
    gen = os.path.join(ctx.scratch, "c02-strings.ndjson")
    r = ctx.tlc("TargetParseGen", env={"VF_OUT": gen, "VF_FULL": "0" if quick else "1"}, workers=1, timeout=1200, xmx="8g")
    if not r.no_error:
        raise vf.Inconclusive("TargetParseGen failed:\n" + r.out[-3000:])
    binary = ctx.go_build_test("./pkg/ip")
    out = os.path.join(ctx.scratch, "c02-parse.ndjson")
    rc, o = ctx.go_run_test(binary, "^TestVfParseIPNet$", env={"VF_SCENARIOS": gen, "VF_OUT": out}, timeout=1200)
    if rc != 0:
        ev = vf.crash_events(ctx, rc, o, "ParseIPNet")
        ctx.violation("C02:parse:crash", "ParseIPNet harness crashed in code under test: %s" % ev[1]["text"], replay={"output": o[-20000:]})
        return
    events = vf.read_ndjson(out)
    ctx.cov["traces_validated_against_impl"] += len(events)
    ctx.count(len(events), [("str", e["s"]) for e in events])
    reports = 0
    rest = events
    while rest:
        p = os.path.join(ctx.scratch, "c02-parse-rest.ndjson")
        vf.write_ndjson(p, rest)
        ok, info = ctx.tlc_trace("TargetParseTrace", p, timeout=2400)
        if ok or reports >= 8:
            break
        bad = rest[info["index"] - 1]
        klass = "ipv6" if ":" in bad["s"] else "other"
        ctx.violation("C02:parse:%s:%s" % (klass, bad["outcome"]), "ParseIPNet(%r) -> %s %s: the reference grammar says this argument must be %s" %
                      (bad["s"], bad["outcome"], bad.get("net", ""), "refused" if klass == "ipv6" else "treated differently"),
                      replay={"property": "C02", "trace_spec": "TargetParseTrace", "run": [bad]})
        reports += 1
        rest = rest[:info["index"] - 1] + rest[info["index"]:]
    for e in events[:3]:
        ctx.sample(e)
