"""C06 — receive path: arbitrary frames never crash it and never yield phantom data.
Spec: WireProcess.tla (the reused-decoder receive path as a state machine over frame shapes; TLC exhaustive; the model of validPacket as found must fail
NoPhantom), WireDecode.tla (Chains: the header chains a byte string contains), WireTrace.tla (what the real processors did with arbitrary bytes)."""
import json
import os
import vf
from checks import wire_common as wc

LEVEL = "model_checking"
LEVEL_TEXT = ("TLC checks WireProcess (decoder structs reused across frames, only layers listed in the decoded list are fresh) over all sequences of <= 3 frames "
              "from 10 shapes in both link modes: AtMostOnePerFrame, NoPhantom, ChainPresent; the model of the layer-counting validPacket must fail NoPhantom. "
              "The real tcp / icmp(udp) / arp ProcessPacketData (one processor instance reused over the whole history, exact-capacity slices, synchronous "
              "result channel) gets every truncation of a valid frame - each followed by the valid frame again - 15 values of every header byte, IP-in-IP, "
              "fragments, bad IHL, non-Ethernet/IPv4 ARP sizes and types, and seeded random byte strings; TLC evaluates the necessary condition on every "
              "event: no crash, at most one record, and a record only from a header chain of that very frame.")
NOTE = ("Trusted: TLC and the reference decoder; panics are recovered by the harness and logged as status crash. The IPv4 version nibble is left open "
        "(neither gopacket nor libpcap checks it; the statement does not name it).")
TECHNIQUE = "TLA+ model checking (TLC) of the reused-decoder model + reference decoder evaluated by TLC on fuzzed frame histories through the real processors"
DESIGN_REF = "DESIGN.md section 5, C06"


def run(ctx):
    quick = ctx.tier == "quick"
    ctx.cov["rule"] = ("model: all sequences of <= 3 frames over 10 shapes x 2 link modes; frames: truncations, header-byte mutations, nested / fragmented / odd-size "
                       "frames and random strings, each history on one processor instance; distinct = frames")
    ctx.tlc_mc("WireProcess", "MC_WireProcess", workers=4, timeout=600)
    ctx.tlc_mc("WireProcess", "MC_WireProcess_vpn", workers=4, timeout=600)
    ctx.tlc_mc("WireProcess", "MC_WireProcess_asfound", workers=4, timeout=600, expect_violation="NoPhantom")
    binary = ctx.go_build_test("./command")
    procs = 4 if quick else 12
    envs = [{"VF_OUT": os.path.join(ctx.scratch, "c06-%d.ndjson" % k), "VERIF_SEED": ctx.seed * 100 + k, "VF_RANDOM": 1000 if quick else 40000} for k in range(procs)]
    res = vf.go_run_many(ctx, binary, "^TestVfPhantom$", envs, timeout=3000)
    events = []
    for (rc, out), e in zip(res, envs):
        if rc != 0:
            ce = vf.crash_events(ctx, rc, out, "receive path")
            ctx.violation("C06:crash:process", "the receive path crashed outside the recovered region: %s" % ce[1]["text"], replay={"output": out[-20000:]})
            continue
        ev = vf.read_ndjson(e["VF_OUT"])
        events += ev
    seenb = set()
    uniq = []
    for e in events:          # the enumerated part is identical in every process: keep one copy
        if e["ev"] == "ReplyBatch":
            uniq.append(e)
            continue
        kkey = (e["scan"], e["vpn"], tuple(e["bytes"]), e["status"], e["nrec"], str(e["rec"]))
        if kkey not in seenb:
            seenb.add(kkey)
            uniq.append(e)
    events = uniq
    for i, e in enumerate(events):
        e["id"] = i + 1
    ctx.cov["traces_validated_against_impl"] += len(events)
    ctx.count(len(events), [("frame", i) for i in range(len(events))])
    seen = set()
    for b in wc.validate_wire(ctx, events, "c06"):
        if b["ev"] == "ReplyBatch":
            key = "C06:%s:history" % b["cfg"]["scan"]
            if key not in seen:
                seen.add(key)
                ctx.violation(key, "%s scan method as built by the command: over a history of %d valid frames the records are not, in order, those of the frames themselves "
                              "(a field left over from an earlier frame, a missing or an extra record): first records %s" % (b["cfg"]["scan"], len(b["frames"]), b["recs"][:3]),
                              replay={"property": "C06", "trace_spec": "WireTrace", "run": [b]})
            continue
        l3 = 0 if b["vpn"] else 14
        by = b["bytes"]
        kind = "crash" if b["status"] == "crash" else ("arp-fields" if b["scan"] == "arp" else ("ip-in-ip-stale" if len(by) > l3 + 9 and by[l3 + 9] == 4 else "phantom"))
        key = "C06:%s:%s" % (b["scan"], kind)
        if key in seen:
            continue
        seen.add(key)
        ctx.violation(key, "%s processor (%s) on frame %s...: status %s, %d record(s) %s - no header chain of this frame carries these fields (%s)" %
                      (b["scan"], "raw IP" if b["vpn"] else "Ethernet", by[:60], b["status"], b["nrec"], b["rec"], b["text"]),
                      replay={"property": "C06", "trace_spec": "WireTrace", "run": [b]})
    pick = next((x for x in events if x["ev"] == "Frame" and x["nrec"] == 1 and x["scan"] == "tcpflags"), None)
    if pick is not None:
        bad = json.loads(json.dumps(pick))
        bad["rec"]["port"] = (bad["rec"]["port"] % 65535) + 1
        vf.selftest_event(ctx, "WireTrace", bad, "the port of the record of an accepted frame changed")
    for e in [x for x in events if x["ev"] == "Frame"][:2]:
        ctx.sample({k: (v if k != "bytes" else v[:60]) for k, v in e.items()})
    # socket-level tier: on a real socket a frame that is cut after the TCP ports, behind a long reply, yields nothing - in particular not the
    # rest of the frame before it (the read path of the packet source hands out exactly the bytes of one frame)
    from checks import wire_tier as wt
    n3, rej = wt.run_wire(ctx, select=lambda s: s["name"] in ("tcp-fin-truncated-after-long", "tcp-reply-with-options"), label="c06w", focus="reply")
    wt.report(ctx, "C06", rej)
