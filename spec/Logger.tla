-------------------------------- MODULE Logger --------------------------------
(* command/log: LogResults (+ UniqueLogger.uniqResults in front of it).                        *)
EXTENDS Integers, Sequences, FiniteSets, TLC
CONSTANTS Id,          \* result identities (Result.ID())
          MaxResults, Unique, CapU
VARIABLES input, fed, uq, seen, lines, ctx, upc, lpc, inClosed, uqClosed
vars == <<input, fed, uq, seen, lines, ctx, upc, lpc, inClosed, uqClosed>>
\* a result is <<id, serial>>: serial distinguishes repeated sightings of one host
Init == /\ input \in UNION {[1..n -> Id] : n \in 0..MaxResults} /\ fed = 0 /\ uq = <<>> /\ seen = {} /\ lines = <<>>
        /\ ctx = FALSE /\ upc = (IF Unique THEN "run" ELSE "off") /\ lpc = "run" /\ inClosed = FALSE /\ uqClosed = FALSE
Res(k) == <<input[k], k>>
\* the producer side is abstracted: results become available in order, then the channel is closed (or never, until cancel)
CloseIn == /\ fed = Len(input) /\ ~inClosed /\ inClosed' = TRUE /\ UNCHANGED <<input, fed, uq, seen, lines, ctx, upc, lpc, uqClosed>>
\* uniqResults goroutine: forward first sighting only
Uniq == /\ upc = "run"
        /\ \/ /\ ctx /\ upc' = "exit" /\ uqClosed' = TRUE /\ UNCHANGED <<fed, uq, seen>>
           \/ /\ fed < Len(input) /\ fed' = fed + 1
              /\ IF input[fed + 1] \in seen THEN UNCHANGED <<uq, seen, upc, uqClosed>>
                 ELSE /\ seen' = seen \cup {input[fed + 1]}
                      /\ \/ /\ Len(uq) < CapU /\ uq' = Append(uq, Res(fed + 1)) /\ UNCHANGED <<upc, uqClosed>>
                         \/ /\ ctx /\ upc' = "exit" /\ uqClosed' = TRUE /\ UNCHANGED uq         \* select: ctx.Done wins
           \/ /\ fed = Len(input) /\ inClosed /\ upc' = "exit" /\ uqClosed' = TRUE /\ UNCHANGED <<fed, uq, seen>>
        /\ UNCHANGED <<input, lines, ctx, lpc, inClosed>>
\* LogResults: one Write per result, in channel order
Log == /\ lpc = "run"
       /\ \/ /\ ctx /\ lpc' = "exit" /\ UNCHANGED <<fed, uq, lines>>
          \/ /\ Unique /\ uq # <<>> /\ lines' = Append(lines, Head(uq)) /\ uq' = Tail(uq) /\ UNCHANGED <<fed, lpc>>
          \/ /\ Unique /\ uq = <<>> /\ uqClosed /\ lpc' = "exit" /\ UNCHANGED <<fed, uq, lines>>
          \/ /\ ~Unique /\ fed < Len(input) /\ fed' = fed + 1 /\ lines' = Append(lines, Res(fed + 1)) /\ UNCHANGED <<uq, lpc>>
          \/ /\ ~Unique /\ fed = Len(input) /\ inClosed /\ lpc' = "exit" /\ UNCHANGED <<fed, uq, lines>>
       /\ UNCHANGED <<input, seen, ctx, upc, inClosed, uqClosed>>
Cancel == ~ctx /\ ctx' = TRUE /\ UNCHANGED <<input, fed, uq, seen, lines, upc, lpc, inClosed, uqClosed>>
Next == CloseIn \/ Uniq \/ Log \/ Cancel
Spec == Init /\ [][Next]_vars /\ WF_vars(Uniq) /\ WF_vars(Log) /\ WF_vars(CloseIn)
(* C14 *)
FirstSightings == {k \in 1..Len(input) : \A j \in 1..(k - 1) : input[j] # input[k]}
Expected == IF Unique THEN FirstSightings ELSE 1..Len(input)
InOrder == \A i, j \in 1..Len(lines) : i < j => lines[i][2] < lines[j][2]
OnlyExpected == \A i \in 1..Len(lines) : lines[i][2] \in Expected /\ lines[i] = Res(lines[i][2])     \* faithful, first sighting only
NoGaps == \A i \in 1..Len(lines) : \A k \in Expected : k < lines[i][2] => \E j \in 1..i : lines[j][2] = k   \* nothing skipped before a printed line
Complete == (lpc = "exit" /\ ~ctx) => {lines[i][2] : i \in 1..Len(lines)} = Expected
Ends == <>(lpc = "exit")
===============================================================================
