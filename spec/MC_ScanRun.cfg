SPECIFICATION Spec
CONSTANTS
  Variant = "asbuilt"
  AttachAtomic = TRUE
INVARIANT TypeOK
INVARIANT CoverageAtDone
INVARIANT InOrder
INVARIANT LateReplyReported
INVARIANT NoForeign
INVARIANT AtMostOnce
INVARIANT FewSendsAfterCancel
PROPERTY DelayHonoured
PROPERTY NoPassAfterCancel
CHECK_DEADLOCK FALSE
