----------------------------- MODULE Socks5Trace -----------------------------
(* C09 binding: what the real socks5.Scanner.Scan did against a scripted server. The expected outcome is the   *)
(* terminal result of Socks5.tla for that script (the machine is deterministic once the script is fixed):      *)
(* hit iff the connection was accepted and the first two bytes received are 05 00; the record carries the       *)
(* probed address and port; the greeting is 05 01 00; the probe ends within connect timeout + 3 data timeouts   *)
(* (+ slack) and promptly after cancellation.                                                                    *)
EXTENDS Integers, Sequences, FiniteSets, TLC, Json, IOUtils
Trace == ndJsonDeserialize(IOEnv.VERIF_TRACE)
Slack == 700          \* ms of scheduling slack on every upper bound
\* walk the script the way Socks5!Read does: collect bytes until two arrived or the server stops sending
RECURSIVE Rx(_, _, _)
Rx(script, i, acc) == IF Len(acc) = 2 THEN [bytes |-> acc, end |-> "two"]
                      ELSE IF i > Len(script) THEN [bytes |-> acc, end |-> "stall"]            \* exhausted script: the server stalls
                      ELSE IF script[i].op = "send" THEN Rx(script, i + 1, Append(acc, script[i].b))
                      ELSE IF script[i].op = "flood" THEN Rx(script, i, Append(acc, script[i].b))   \* endless copies of one byte
                      ELSE [bytes |-> acc, end |-> script[i].op]
Expected(e) == IF e.dial # "accept" THEN "error"
               ELSE LET r == Rx(e.script, 1, <<>>) IN
                    IF r.end = "two" THEN (IF r.bytes = <<5, 0>> THEN "hit" ELSE "none") ELSE "error"
\* scripted delays before the two bytes are part of the time the server takes, not of the probe's budget
Delays(e) == LET RECURSIVE D(_, _) D(i, n) == IF i > Len(e.script) \/ n = 2 THEN 0
                                               ELSE e.script[i].delayMs + D(i + 1, IF e.script[i].op = "send" THEN n + 1 ELSE n) IN D(1, 0)
ProbeOK(e) ==
   IF e.cancelMs > 0
   THEN \* cancelled scans: never a false positive, and the probe ends promptly - well before the data timeout it was waiting on
        \* (with the 250 ms timeouts of the ordinary runs a read that was about to expire anyway may win the race)
        /\ (e.result = "hit" => Expected(e) = "hit")
        /\ e.durMs <= e.cancelMs + (IF e.dataT > 2 * Slack THEN 0 ELSE e.dataT) + Slack
   ELSE /\ e.result = Expected(e)
        /\ (e.result = "hit" => e.rec.ip = e.target.ip /\ e.rec.port = e.target.port /\ e.rec.scan = "socks" /\ e.rec.version = 5)
        /\ e.durMs <= e.dialT + 3 * e.dataT + Slack
        \* RFC 1928 greeting: version 5, one method, no authentication (when the server read it)
        /\ (e.dial = "accept" /\ ~e.noRead /\ e.got # <<-1>> => e.got = <<5, 1, 0>>)
VARIABLE l
Init == l = 1
Next == l <= Len(Trace) /\ ProbeOK(Trace[l]) /\ l' = l + 1
TSpec == Init /\ [][Next]_l
HighWater == TLCSet(1, IF l > TLCGet(1) THEN l ELSE TLCGet(1))
ASSUME TLCSet(1, 0)
TraceAccepted == IF TLCGet(1) = Len(Trace) + 1 THEN PrintT(<<"TRACE ACCEPTED", Len(Trace)>>)
                 ELSE Print(<<"REJECTED at event", TLCGet(1), Trace[TLCGet(1)]>>, FALSE)
==============================================================================
