------------------------------ MODULE Receiver ------------------------------
(* pkg/packet/receiver.go  receiver.ReceivePackets: one goroutine reading from a     *)
(* scripted wire, a processor, a bounded error channel and its consumer.             *)
(*                                                                                   *)
(*   for { select ctx.Done -> return; default }           Check                      *)
(*         data, err := ReadPacketData()                  Read                       *)
(*         temporary  -> continue                                                    *)
(*         unrecoverable -> return                                                   *)
(*         unknown -> select {ctx.Done -> return; errc <- err}; sleep; continue      *)
(*         ProcessPacketData(data)                        Process                    *)
(*            err -> select {ctx.Done -> return; errc <- err}      Report            *)
(*   defer close(errc)                                    Close                      *)
EXTENDS Integers, Sequences, FiniteSets, TLC
CONSTANTS MaxLen,       \* scripts of length 0..MaxLen are explored (model checking only)
          CapErr,       \* capacity of errc (100 in the code)
          AllowCancel

Outcome == {"frame", "frameProcErr", "eagain", "timeout", "connreset", "unknown", "eof", "closed"}
Temp    == {"eagain", "timeout", "connreset"}
Fatal   == {"eof", "closed"}
IsFrame(o) == o \in {"frame", "frameProcErr"}

VARIABLES script,      \* what successive reads from the wire return; past its end the socket is closed
          pos,         \* next script position
          pc,          \* receiver goroutine: check, read, process, report, close, exit
          errq,        \* errc contents (script positions)
          errClosed,   \* close(errc) happened
          ctx,         \* context cancelled
          processed,   \* positions handed to the processor, in order
          reported,    \* positions sent on errc, in order
          got,         \* positions the consumer has received
          seenClosed   \* the consumer has observed the closed channel
vars == <<script, pos, pc, errq, errClosed, ctx, processed, reported, got, seenClosed>>

InitRun(s) == /\ script = s /\ pos = 1 /\ pc = "check" /\ errq = <<>> /\ errClosed = FALSE /\ ctx = FALSE
              /\ processed = <<>> /\ reported = <<>> /\ got = <<>> /\ seenClosed = FALSE
Init == \E s \in UNION {[1..n -> Outcome] : n \in 0..MaxLen} : InitRun(s)

Check == /\ pc = "check"
         /\ pc' = IF ctx THEN "close" ELSE "read"
         /\ UNCHANGED <<script, pos, errq, errClosed, ctx, processed, reported, got, seenClosed>>
Cur == IF pos <= Len(script) THEN script[pos] ELSE "closed"
Read == /\ pc = "read"
        /\ pos' = pos + 1
        /\ pc' = CASE Cur \in Temp -> "check"
                   [] Cur \in Fatal -> "close"
                   [] Cur = "unknown" -> "report"
                   [] IsFrame(Cur) -> "process"
        /\ UNCHANGED <<script, errq, errClosed, ctx, processed, reported, got, seenClosed>>
Process == /\ pc = "process"
           /\ processed' = Append(processed, pos - 1)
           /\ pc' = IF script[pos - 1] = "frameProcErr" THEN "report" ELSE "check"
           /\ UNCHANGED <<script, pos, errq, errClosed, ctx, reported, got, seenClosed>>
ReportSend == /\ pc = "report" /\ Len(errq) < CapErr
              /\ errq' = Append(errq, pos - 1) /\ reported' = Append(reported, pos - 1)
              /\ pc' = "check"
              /\ UNCHANGED <<script, pos, errClosed, ctx, processed, got, seenClosed>>
ReportCtx == /\ pc = "report" /\ ctx /\ pc' = "close"
             /\ UNCHANGED <<script, pos, errq, errClosed, ctx, processed, reported, got, seenClosed>>
Close == /\ pc = "close" /\ errClosed' = TRUE /\ pc' = "exit"
         /\ UNCHANGED <<script, pos, errq, ctx, processed, reported, got, seenClosed>>
Consume == /\ errq # <<>> /\ got' = Append(got, Head(errq)) /\ errq' = Tail(errq)
           /\ UNCHANGED <<script, pos, pc, errClosed, ctx, processed, reported, seenClosed>>
SeeClosed == /\ errq = <<>> /\ errClosed /\ ~seenClosed /\ seenClosed' = TRUE
             /\ UNCHANGED <<script, pos, pc, errq, errClosed, ctx, processed, reported, got>>
Cancel == /\ AllowCancel /\ ~ctx /\ ctx' = TRUE
          /\ UNCHANGED <<script, pos, pc, errq, errClosed, processed, reported, got, seenClosed>>

Internal == Check \/ ReportSend \/ ReportCtx \/ Close
Next == Internal \/ Read \/ Process \/ Consume \/ SeeClosed \/ Cancel
Spec == Init /\ [][Next]_vars /\ WF_vars(Check \/ Read \/ Process \/ ReportSend \/ ReportCtx \/ Close)
             /\ WF_vars(Consume) /\ WF_vars(SeeClosed)

(* ---------------- C20 ---------------- *)
Idx(S) == {i \in 1..Len(script) : script[i] \in S}
FirstFatal == IF Idx(Fatal) = {} THEN Len(script) + 1 ELSE CHOOSE i \in Idx(Fatal) : \A j \in Idx(Fatal) : i <= j
\* increasing sequence of the elements of a set of positions
RECURSIVE SeqOfUpTo(_, _)
SeqOfUpTo(S, n) == IF n = 0 THEN <<>> ELSE IF n \in S THEN Append(SeqOfUpTo(S, n - 1), n) ELSE SeqOfUpTo(S, n - 1)
SeqOf(S) == SeqOfUpTo(S, Len(script))
\* without cancellation: every frame before the first fatal outcome is processed exactly once, in order;
\* every unknown failure and every processing error is reported exactly once, in order; nothing else is
NoCancelExact == (seenClosed /\ ~ctx) =>
     /\ processed = SeqOf({i \in Idx({"frame", "frameProcErr"}) : i < FirstFatal})
     /\ got = SeqOf({i \in Idx({"unknown", "frameProcErr"}) : i < FirstFatal})
\* always (also under cancellation): never twice, never out of order, never invented, transient failures silent
Increasing(q) == \A i, j \in 1..Len(q) : i < j => q[i] < q[j]
Safe == /\ Increasing(processed) /\ Increasing(reported) /\ Increasing(got)
        /\ \A i \in 1..Len(reported) : script[reported[i]] \in {"unknown", "frameProcErr"}
        /\ \A i \in 1..Len(processed) : IsFrame(script[processed[i]])
        /\ \A i \in 1..Len(got) : \E j \in 1..Len(reported) : reported[j] = got[i]
        /\ \A i \in 1..Len(processed) : processed[i] < FirstFatal
\* a processing error never stops the receiver; an unknown failure neither
ReadingContinues == (pc = "exit" /\ ~ctx) => pos > FirstFatal \/ pos > Len(script)
\* the error stream is only closed after the loop has ended
ClosedLast == errClosed => pc = "exit"
Ends == <>(pc = "exit")
CancelEnds == ctx ~> (pc = "exit")
ClosedIsSeen == (pc = "exit") ~> seenClosed
=============================================================================
