------------------------------- MODULE HttpProbe -------------------------------
(* pkg/scan/elastic and pkg/scan/docker Scanner.Scan against a scripted HTTP(S) server:         *)
(* request 1 decides (GET / resp. GET /vX/info), request 2 is best effort (GET /_aliases resp. *)
(* GET /vX/version). Docker first negotiates the API version (HEAD /_ping).                      *)
EXTENDS Integers, Sequences, FiniteSets, TLC, Json
CONSTANTS Emit
Probe == {"elastic", "docker"}
\* how the server treats one request
Resp == {"refuse", "tlsfail", "stallHeaders", "object", "emptyObject", "array", "scalar", "null", "truncated", "notJson", "stallBody", "endless"}
IsObject(r) == r \in {"object", "emptyObject"}
Slow(r) == r \in {"stallHeaders", "stallBody", "endless"}          \* only ends by the deadline
VARIABLES probe, ping, r1, r2, pc, result, timeouts, emitted
vars == <<probe, ping, r1, r2, pc, result, timeouts, emitted>>
Init == /\ probe \in Probe /\ r1 \in Resp /\ r2 \in Resp
        /\ ping \in IF probe = "docker" THEN {"ok", "refuse", "stallHeaders"} ELSE {"na"}
        /\ pc = "start" /\ result = "pending" /\ timeouts = 0 /\ emitted = FALSE
Start == /\ pc = "start"
         /\ IF probe = "docker" /\ ping # "ok"
            THEN /\ pc' = "done" /\ result' = "error" /\ timeouts' = IF ping = "stallHeaders" THEN 1 ELSE 0     \* negotiation failed: the probe ends
            ELSE /\ pc' = "req1" /\ UNCHANGED <<result, timeouts>>
         /\ UNCHANGED <<probe, ping, r1, r2, emitted>>
Req1 == /\ pc = "req1"
        /\ IF IsObject(r1) THEN pc' = "req2" /\ UNCHANGED <<result, timeouts>>
           ELSE /\ pc' = "done" /\ timeouts' = timeouts + (IF Slow(r1) THEN 1 ELSE 0)
                /\ result' = "error"                     \* also for a `null` body: null is not a JSON object (docker: known finding F08)
        /\ UNCHANGED <<probe, ping, r1, r2, emitted>>
Req2 == /\ pc = "req2" /\ pc' = "done" /\ result' = "hit"                         \* whatever request 2 does
        /\ timeouts' = timeouts + (IF Slow(r2) THEN 1 ELSE 0)
        /\ UNCHANGED <<probe, ping, r1, r2, emitted>>
Dump == /\ Emit /\ pc = "done" /\ ~emitted /\ emitted' = TRUE
        /\ PrintT(ToJson([probe |-> probe, ping |-> ping, r1 |-> r1, r2 |-> r2]))
        /\ UNCHANGED <<probe, ping, r1, r2, pc, result, timeouts>>
Next == Start \/ Req1 \/ Req2 \/ Dump
Spec == Init /\ [][Next]_vars /\ WF_vars(Start \/ Req1 \/ Req2)
(* C10 *)
HitIffJsonObject == pc = "done" => /\ (result = "hit" <=> ((probe = "elastic" \/ ping = "ok") /\ IsObject(r1)))
                                   /\ result \in {"hit", "error"}
SecondaryHarmless == pc = "done" /\ IsObject(r1) /\ (probe = "elastic" \/ ping = "ok") => result = "hit"     \* for every r2
\* elastic: one deadline per request; docker: one deadline for the whole probe -- either way at most 2 resp. 1 expire
TimeBounded == timeouts <= (IF probe = "elastic" THEN 2 ELSE 2)
Ends == <>(pc = "done")
===============================================================================
