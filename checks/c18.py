"""C18 — option parsing is total, and exact on everything it accepts.
Spec: Options.tla (reference semantics of the port list / ports file / rate / TCP flag / IP flag / payload grammars as functions over character
sequences), OptionsGen.tla (input vectors), OptionsTrace.tla (what the real parsers returned against the reference)."""
import concurrent.futures
import os
import vf

LEVEL = "exploration"
LEVEL_TEXT = ("TLC evaluates the reference grammar on every generated input and compares with what the real parser returned: all strings of length <= 4 "
              "(quick; <= 5 thorough) over 9-12 character alphabets for ports / rate / payload plus boundary numerals, every subset of the 9 TCP flag names "
              "and 3 IP flag names in three orders and three letter cases (with the option table applied to a real filler, so each name must set exactly "
              "its own bit), the canonical rendering (\\\\xHH) of all single bytes and 144 byte pairs, ports files with comments / blanks / over-long lines. "
              "There is no state space here: TLA+ is used as an executable reference (the technique's weakest fit, see DESIGN.md section 8).")
NOTE = ("Trusted: TLC and the reference grammars in Options.tla; inputs outside the modelled grammar (compound durations, 10-digit counts, \\\\U escapes) are only "
        "checked for totality (no crash). The exclusion-file grammar is checked under C02 (TargetParse + denotation).")
TECHNIQUE = "TLA+ executable reference evaluated by TLC on spec-generated inputs run through the real parsers (differential, TLC decides)"
DESIGN_REF = "DESIGN.md section 5, C18"


def run(ctx):
    quick = ctx.tier == "quick"
    ctx.cov["rule"] = ("inputs enumerated by TLC from OptionsGen (all strings up to the stated length over small alphabets + boundary cases + flag-name subsets + "
                       "canonical payload renderings); distinct = distinct (parser, input) pairs; non-trivial = all (every input exercises the grammar)")
    v1 = os.path.join(ctx.scratch, "c18-vec.ndjson")
    v2 = os.path.join(ctx.scratch, "c18-files.ndjson")
    r = ctx.tlc("OptionsGen", env={"VF_FULL": "0" if quick else "1", "VF_OUT": v1, "VF_OUT2": v2}, workers=1, timeout=1800, xmx="10g")
    if not r.no_error:
        raise vf.Inconclusive("OptionsGen failed:\n" + r.out[-3000:])
    binary = ctx.go_build_test("./command")
    out = os.path.join(ctx.scratch, "c18-out.ndjson")
    rc, o = ctx.go_run_test(binary, "^TestVfOptions$", env={"VF_SCENARIOS": v1, "VF_SCENARIOS2": v2, "VF_OUT": out}, timeout=1800)
    if rc != 0:
        ev = vf.crash_events(ctx, rc, o, "options")
        ctx.violation("C18:crash", "an option parser crashed the process: %s" % ev[1]["text"], replay={"output": o[-20000:]})
        return
    events = vf.read_ndjson(out)
    ctx.cov["traces_validated_against_impl"] += len(events)
    ctx.count(len(events), [(e["which"], e["s"]) for e in events])
    k = 8
    slices = [events[i::k] for i in range(k)]

    def validate(i):
        sl = slices[i]
        bad = []
        while sl:
            p = os.path.join(ctx.scratch, "c18-slice-%d.ndjson" % i)
            vf.write_ndjson(p, sl)
            ok, info = ctx.tlc_trace("OptionsTrace", p, timeout=3000, xmx="3g")
            if ok or len(bad) >= 40:
                break
            bad.append(sl[info["index"] - 1])
            sl = sl[:info["index"] - 1] + sl[info["index"]:]
        return bad
    with concurrent.futures.ThreadPoolExecutor(max_workers=k) as ex:
        allbad = [b for bl in ex.map(validate, range(k)) for b in bl]
    classes = {}
    for b in allbad:
        cls = classify(b)
        classes.setdefault(cls, []).append(b)
    for cls, bl in sorted(classes.items()):
        b = bl[0]
        ctx.violation("C18:%s" % cls, "%s(%r) -> %s %s: differs from the reference semantics (%d inputs of this class, e.g. %s)" %
                      (b["which"], b["s"], b["outcome"], b.get("val", ""), len(bl), [x["s"] for x in bl[:5]]),
                      replay={"property": "C18", "trace_spec": "OptionsTrace", "run": bl[:50]})
    pick = next((e for e in events if e["which"] == "ports" and e["outcome"] == "err" and e["s"] == ""), None)
    if pick is not None:
        vf.selftest_event(ctx, "OptionsTrace", dict(pick, outcome="ok", val=[[1, 1]]), "the empty port list presented as accepted with value 1-1")
    for e in events[:3] + events[-2:]:
        ctx.sample({k2: v for k2, v in e.items() if k2 != "lines"})


def classify(b):
    w = b["which"]
    if b["outcome"] == "panic":
        return w + ":panic"
    if w in ("ports", "portsfile") and b["outcome"] == "ok":
        if w == "ports" and any(f.count("-") >= 2 for f in b["s"].split(",")):
            return "ports:third-field-ignored"
        if w == "portsfile":
            return "portsfile:accepted"
    return "%s:%s" % (w, b["outcome"])
