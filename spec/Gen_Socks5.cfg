SPECIFICATION Spec
CONSTANTS Byte = {5, 0, 9} MaxSteps = 3 AllowCancel = FALSE Emit = TRUE
CHECK_DEADLOCK FALSE
