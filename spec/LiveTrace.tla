------------------------------ MODULE LiveTrace ------------------------------
(* C19 on the real NewLiveRequestGenerator: events recorded by a delegate wrapper (which forwards the real  *)
(* address generator's requests and can be told to fail on a given pass) and by the consumer of the live      *)
(* stream, with monotonic times in microseconds. The clauses are those of Live.tla.                           *)
(* PassEnd is logged by the wrapper *before* it closes its channel and Start at the *entry* of the next       *)
(* delegate call, so the measured gap can only be smaller than... no: larger than or equal to the true gap     *)
(* minus nothing: PassEnd.t <= true end, Start.t >= true start -- the lower bound is exact.                   *)
EXTENDS Integers, Sequences, FiniteSets, TLC, Json, IOUtils
Trace == ndJsonDeserialize(IOEnv.VERIF_TRACE)
VARIABLES l, naddr, interval, pass, active, remaining, passEndT, lastStartT, q, cancelled, closed, failed
vars == <<l, naddr, interval, pass, active, remaining, passEndT, lastStartT, q, cancelled, closed, failed>>
Ev == Trace[l]
Is(e) == l <= Len(Trace) /\ Ev.ev = e /\ l' = l + 1
Init == /\ l = 1 /\ naddr = 0 /\ interval = 0 /\ pass = 0 /\ active = FALSE /\ remaining = {} /\ passEndT = -1 /\ lastStartT = -1
        /\ q = <<>> /\ cancelled = TRUE /\ closed = TRUE /\ failed = FALSE
Reset == /\ Is("Reset") /\ closed
         /\ naddr' = Ev.naddr /\ interval' = Ev.intervalUs /\ pass' = 0 /\ active' = FALSE /\ remaining' = {} /\ passEndT' = -1 /\ lastStartT' = -1
         /\ q' = <<>> /\ cancelled' = FALSE /\ closed' = FALSE /\ failed' = FALSE
\* the delegate is asked for pass k: the first call at once, every later one no earlier than the interval after the previous
\* pass ended, and never twice within one interval (no busy loop after a failure)
Start == /\ Is("Start") /\ ~active /\ Ev.k = pass + 1
         /\ (pass > 0 => (passEndT # -1 /\ Ev.t >= passEndT + interval /\ Ev.t >= lastStartT + interval))
         /\ pass' = Ev.k /\ lastStartT' = Ev.t /\ passEndT' = IF Ev.ok THEN -1 ELSE passEndT
         /\ active' = Ev.ok /\ remaining' = (IF Ev.ok THEN 1..naddr ELSE {}) /\ failed' = (failed \/ ~Ev.ok)
         /\ UNCHANGED <<naddr, interval, q, cancelled, closed>>
\* the delegate hands out an address of the current pass: each exactly once per pass
Emit == /\ Is("Emit") /\ active /\ Ev.k = pass /\ Ev.ip \in remaining
        /\ remaining' = remaining \ {Ev.ip} /\ q' = Append(q, Ev.ip)
        /\ UNCHANGED <<naddr, interval, pass, active, passEndT, lastStartT, cancelled, closed, failed>>
PassEnd == /\ Is("PassEnd") /\ active /\ Ev.k = pass /\ (remaining = {} \/ cancelled)
           /\ active' = FALSE /\ passEndT' = Ev.t
           /\ UNCHANGED <<naddr, interval, pass, remaining, lastStartT, q, cancelled, closed, failed>>
\* the live stream delivers exactly what the delegate handed out, in order
Item == /\ Is("Item") /\ q # <<>> /\ Head(q) = Ev.ip /\ ~closed /\ q' = Tail(q)
        /\ UNCHANGED <<naddr, interval, pass, active, remaining, passEndT, lastStartT, cancelled, closed, failed>>
Cancel == /\ Is("Cancel") /\ ~cancelled /\ cancelled' = TRUE
          /\ UNCHANGED <<naddr, interval, pass, active, remaining, passEndT, lastStartT, q, closed, failed>>
\* cancellation (and only cancellation) ends the stream
Closed == /\ Is("Closed") /\ cancelled /\ ~closed /\ closed' = TRUE
          /\ UNCHANGED <<naddr, interval, pass, active, remaining, passEndT, lastStartT, q, cancelled, failed>>
\* harness marker: the wanted number of complete passes was observed before the cancel (passes keep coming)
Passes == /\ Is("Passes") /\ ~cancelled /\ (failed \/ pass >= Ev.want) /\ UNCHANGED <<naddr, interval, pass, active, remaining, passEndT, lastStartT, q, cancelled, closed, failed>>
Next == Reset \/ Start \/ Emit \/ PassEnd \/ Item \/ Cancel \/ Closed \/ Passes
TSpec == Init /\ [][Next]_vars
HighWater == TLCSet(1, IF l > TLCGet(1) THEN l ELSE TLCGet(1))
ASSUME TLCSet(1, 0)
TraceAccepted == IF TLCGet(1) = Len(Trace) + 1 THEN PrintT(<<"TRACE ACCEPTED", Len(Trace)>>)
                 ELSE Print(<<"REJECTED at event", TLCGet(1), Trace[TLCGet(1)]>>, FALSE)
==============================================================================
