"""C19 — live mode: complete passes repeat until cancelled.
Spec: Live.tla (explicit-time model of liveRequestGenerator: passes, rescan timer, failing delegate, cancel; TLC exhaustive),
LiveTrace.tla (the same clauses on events and times recorded from the real NewLiveRequestGenerator)."""
import os
import vf
from checks import wire_tier as wt

LEVEL = "model_checking"
LEVEL_TEXT = ("TLC checks Live (2 addresses, interval 2 ticks, 3 passes, delegate failing on any pass, cancel anywhere, every timing): PassExact per pass, "
              "RescanGap / no two delegate calls within an interval, NoOutputAfterFailure, CancelEnds. The real NewLiveRequestGenerator runs over the "
              "real address generator (/32../27) behind a delegate wrapper, with fast and slow consumers (passes shorter and longer than the interval), "
              "a delegate failing on pass 1/2/3 and cancel at every event of a run; TLC validates events and measured times against the same clauses "
              "(lower bound on the rescan gap exact).")
NOTE = ("Trusted: TLC; monotonic clock; PassEnd is logged before the delegate's channel is closed and Start at the entry of the next delegate call, so the "
        "gap lower bound cannot raise a false alarm; 'passes keep coming' and 'cancel ends the stream' use generous bounds (20 s / 10 s). The composition with "
        "sx arp --live and the unique logger on a real socket belongs to the socket-level tier.")
TECHNIQUE = "TLA+ model checking (TLC, explicit time) + trace validation of the real live generator against the spec"
DESIGN_REF = "DESIGN.md section 5, C19"


def run(ctx):
    if ctx.replay:
        return vf.replay_trace(ctx, ctx.replay)
    quick = ctx.tier == "quick"
    ctx.cov["rule"] = ("model: all timings/orders for 2 addresses, 3 passes, failure on pass 2 or 3 or never; runs: subnets /32../27, intervals 5..80 ms, "
                       "fast/slow consumers, failing delegate, cancel at every event of a 3-pass run; distinct = runs")
    for cfg in ("MC_Live_ok", "MC_Live_fail2", "MC_Live_fail3"):
        ctx.tlc_mc("Live", cfg, workers=8, timeout=600)
    binary = ctx.go_build_test("./pkg/scan")
    nshard = 8
    envs = [{"VF_OUT": os.path.join(ctx.scratch, "c19-%d.ndjson" % k), "VERIF_SEED": ctx.seed, "VERIF_TIER": ctx.tier, "VF_SHARD": k, "VF_NSHARD": nshard}
            for k in range(nshard)]
    res = vf.go_run_many(ctx, binary, "^TestVfLive$", envs, timeout=2400)
    events = []
    for (rc, out), e in zip(res, envs):
        if os.path.exists(e["VF_OUT"]):
            events += vf.read_ndjson(e["VF_OUT"])
        ce = vf.crash_events(ctx, rc, out, "live")
        if ce:
            events += [dict(ce[0], naddr=0, intervalUs=0, failOn=0, t=0), ce[1]]
    trace = os.path.join(ctx.scratch, "c19-all.ndjson")
    vf.write_ndjson(trace, events)
    n, _ = vf.validate_runs(ctx, "LiveTrace", trace, keyfn=lambda run, evt: "live:%s:%s" % (evt.get("ev"), evt.get("what", "")), label="live generator")
    ctx.count(0, [("run", i) for i in range(n)])
    # socket-level tier: `sx arp --live` on the wire until Ctrl-C: passes, rescan gap, de-duplicated output
    n3, rej = wt.run_wire(ctx, select=lambda s: s["name"].startswith("arp-live"), label="c19w", focus="live")
    wt.report(ctx, "C19", rej)
    for r0 in vf.split_runs(events)[:3]:
        ctx.sample(r0[:40])
    ctx.assumptions += ["bounds: passes must keep coming within want*(interval+pass time)+20 s; the stream must close within 10 s of cancel"]
