INIT Init
NEXT Next
