//go:build verif

package command

// C05 harness: probe frames built by the real fillers, configured the way the commands configure them
// (the --flags option table, getUDPOptions, getICMPOptions), in both link modes, also from several
// goroutines sharing one filler as the packet generators do. WireTrace.tla (WireBytes) decides.

import (
	"fmt"
	"math/rand"
	"net"
	"os"
	"strconv"
	"sync"
	"testing"

	"github.com/google/gopacket"
	"github.com/v-byte-cpu/sx/pkg/scan"
	"github.com/v-byte-cpu/sx/pkg/scan/arp"
	"github.com/v-byte-cpu/sx/pkg/scan/icmp"
	"github.com/v-byte-cpu/sx/pkg/scan/tcp"
	"github.com/v-byte-cpu/sx/pkg/scan/udp"
)

func vfInts(b []byte) []int {
	out := make([]int, len(b))
	for i, x := range b {
		out[i] = int(x)
	}
	return out
}

type vfFillCase struct {
	kind  string
	vpn   bool
	fill  scan.PacketFiller
	opts  map[string]interface{}
	dport int
}

func vfFillReq(rnd *rand.Rand, dport int) *scan.Request {
	ip4 := func() net.IP { return net.IPv4(byte(1+rnd.Intn(223)), byte(rnd.Intn(256)), byte(rnd.Intn(256)), byte(rnd.Intn(256))).To4() }
	mac := func() []byte { m := make([]byte, 6); rnd.Read(m); return m }
	return &scan.Request{SrcIP: ip4(), DstIP: ip4(), SrcMAC: mac(), DstMAC: mac(), DstPort: uint16(dport)}
}

func vfFillEvent(id int, c *vfFillCase, r *scan.Request) map[string]interface{} {
	buf := gopacket.NewSerializeBuffer()
	ev := map[string]interface{}{"ev": "Fill", "id": id, "kind": c.kind, "vpn": c.vpn, "opts": c.opts,
		"req": map[string]interface{}{"dstmac": vfInts(r.DstMAC), "srcmac": vfInts(r.SrcMAC), "srcip": vfInts(r.SrcIP), "dstip": vfInts(r.DstIP), "dport": int(r.DstPort)}}
	if err := c.fill.Fill(buf, r); err != nil {
		ev["bytes"] = []int{}
		ev["fillErr"] = err.Error()
		return ev
	}
	ev["bytes"] = vfInts(buf.Bytes())
	return ev
}

func TestVfFill(t *testing.T) {
	out := vfOpenOut(t, "VF_OUT")
	defer out.close()
	seed, _ := strconv.ParseInt(os.Getenv("VERIF_SEED"), 10, 64)
	thorough := os.Getenv("VERIF_TIER") == "thorough"
	rnd := rand.New(rand.NewSource(seed*2750159 + 1))
	id := 0
	emit := func(c *vfFillCase, dport int) {
		id++
		out.write([]map[string]interface{}{vfFillEvent(id, c, vfFillReq(rnd, dport))})
	}
	names := []string{cliTCPFINPacketFlag, cliTCPSYNPacketFlag, cliTCPRSTPacketFlag, cliTCPPSHPacketFlag, cliTCPACKPacketFlag, cliTCPURGPacketFlag,
		cliTCPECEPacketFlag, cliTCPCWRPacketFlag, cliTCPNSPacketFlag}
	ports := []int{1, 80, 32768, 65535}
	// TCP: all 2^9 flag sets through the --flags option table, both link modes
	var tcpCases []*vfFillCase
	for bits := 0; bits < 512; bits++ {
		for _, vpn := range []bool{false, true} {
			var opts []tcp.PacketFillerOption
			for i, n := range names {
				if bits&(1<<uint(i)) != 0 {
					opts = append(opts, tcpPacketFlagOptions[n])
				}
			}
			opts = append(opts, tcp.WithFillerVPNmode(vpn))
			c := &vfFillCase{kind: "tcp", vpn: vpn, fill: tcp.NewPacketFiller(opts...), opts: map[string]interface{}{"flags": bits}}
			tcpCases = append(tcpCases, c)
			emit(c, ports[rnd.Intn(len(ports))])
			if thorough {
				emit(c, 1+rnd.Intn(65535))
				emit(c, 1+rnd.Intn(65535))
			}
		}
	}
	// UDP / ICMP through the commands' option builders
	plens := []int{0, 1, 2, 3, 4, 5, 7, 8, 15, 16, 17, 31, 32, 33, 47, 48, 49, 1400}
	if thorough {
		for n := 0; n <= 64; n++ {
			plens = append(plens, n)
		}
	}
	payload := func(n int) []byte { b := make([]byte, n); rnd.Read(b); return b }
	ttls := []int{0, 1, 64, 255}
	for _, vpn := range []bool{false, true} {
		for _, n := range plens {
			for _, ttl := range ttls {
				ipf := rnd.Intn(8)
				proto := []int{17, 17, 0, 200}[rnd.Intn(4)]
				iplen := []int{0, 0, 0, 999, 20}[rnd.Intn(5)]
				o := &udpCmdOpts{ipTTL: uint8(ttl), ipFlags: uint8(ipf), ipProtocol: uint8(proto), ipTotalLen: uint16(iplen), udpPayload: payload(n)}
				o.vpnMode = vpn
				c := &vfFillCase{kind: "udp", vpn: vpn, fill: udp.NewPacketFiller(o.getUDPOptions()...),
					opts: map[string]interface{}{"ttl": ttl, "ipflags": ipf, "ipproto": proto, "iplen": iplen, "payload": vfInts(o.udpPayload)}}
				emit(c, ports[rnd.Intn(len(ports))])
			}
		}
		for _, n := range append([]int{-1}, plens...) { // -1: no --payload given (the filler's default 48 random bytes)
			for _, typ := range []int{0, 8, 13, 255} {
				for _, code := range []int{0, 3, 255} {
					ttl := ttls[rnd.Intn(len(ttls))]
					ipf := rnd.Intn(8)
					proto := []int{1, 1, 0, 157}[rnd.Intn(4)]
					iplen := []int{0, 0, 0, 999}[rnd.Intn(4)]
					o := &icmpCmdOpts{ipTTL: uint8(ttl), ipFlags: uint8(ipf), ipProtocol: uint8(proto), ipTotalLen: uint16(iplen), icmpType: uint8(typ), icmpCode: uint8(code)}
					if n > 0 {
						o.icmpPayload = payload(n)
					}
					o.vpnMode = vpn
					c := &vfFillCase{kind: "icmp", vpn: vpn, fill: icmp.NewPacketFiller(o.getICMPOptions()...),
						opts: map[string]interface{}{"ttl": ttl, "ipflags": ipf, "ipproto": proto, "iplen": iplen, "type": typ, "code": code,
							"payload": vfInts(o.icmpPayload), "defaultPayload": n <= 0}}
					emit(c, 0)
				}
			}
		}
	}
	// ARP
	for k := 0; k < 50; k++ {
		emit(&vfFillCase{kind: "arp", vpn: false, fill: arp.NewPacketFiller(), opts: map[string]interface{}{}}, 0)
	}
	// one filler shared by 8 goroutines, as NewPacketMultiGenerator does: frames must still be each request's own
	nshared := 300
	if thorough {
		nshared = 3000
	}
	shared := []*vfFillCase{tcpCases[2*18], tcpCases[2*2+1]}
	for _, vpn := range []bool{false, true} {
		uo := &udpCmdOpts{ipTTL: 64, ipFlags: 2, ipProtocol: 17, udpPayload: []byte("shared")}
		uo.vpnMode = vpn
		shared = append(shared, &vfFillCase{kind: "udp", vpn: vpn, fill: udp.NewPacketFiller(uo.getUDPOptions()...),
			opts: map[string]interface{}{"ttl": 64, "ipflags": 2, "ipproto": 17, "iplen": 0, "payload": vfInts(uo.udpPayload)}})
		io := &icmpCmdOpts{ipTTL: 64, ipFlags: 2, ipProtocol: 1, icmpType: 8, icmpPayload: []byte("shared-icmp")}
		io.vpnMode = vpn
		shared = append(shared, &vfFillCase{kind: "icmp", vpn: vpn, fill: icmp.NewPacketFiller(io.getICMPOptions()...),
			opts: map[string]interface{}{"ttl": 64, "ipflags": 2, "ipproto": 1, "iplen": 0, "type": 8, "code": 0, "payload": vfInts(io.icmpPayload), "defaultPayload": false}})
	}
	shared = append(shared, &vfFillCase{kind: "arp", vpn: false, fill: arp.NewPacketFiller(), opts: map[string]interface{}{}})
	for _, c := range shared {
		var mu sync.Mutex
		var wg sync.WaitGroup
		reqs := make([]*scan.Request, nshared*8)
		for i := range reqs {
			reqs[i] = vfFillReq(rnd, 1+rnd.Intn(65535))
		}
		evs := make([]map[string]interface{}, len(reqs))
		for w := 0; w < 8; w++ {
			wg.Add(1)
			go func(w int) {
				defer wg.Done()
				for i := w; i < len(reqs); i += 8 {
					e := vfFillEvent(0, c, reqs[i])
					mu.Lock()
					evs[i] = e
					mu.Unlock()
				}
			}(w)
		}
		wg.Wait()
		for _, e := range evs {
			id++
			e["id"] = id
			out.write([]map[string]interface{}{e})
		}
	}
	fmt.Printf("VF_RUNS=%d\n", id)
}
