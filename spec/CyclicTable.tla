----------------------------- MODULE CyclicTable -----------------------------
(* C04, the table: every row <<P, G, N>> of cyclicGroups (extracted from the working  *)
(* tree) is certified inside TLC: rows strictly increasing, first P = 3, last         *)
(* P = 2^32+61, P prime and G a primitive root (Lucas/Pratt: G^(P-1) = 1 and          *)
(* G^((P-1)/q) # 1 for every prime q | P-1, the q's themselves certified recursively  *)
(* with witnesses supplied by an untrusted helper and only CHECKED here), and         *)
(* gcd(N, P-1) = 1. With the textbook lemma (g generates (Z/pZ)* => x -> x*g visits   *)
(* every element once; g^e generates iff gcd(e, p-1) = 1) this gives Perm for every   *)
(* n <= 2^32+60 and every pair of draws.                                               *)
EXTENDS BigNat, FiniteSets, TLC, Json, IOUtils
Doc == ndJsonDeserialize(IOEnv.VERIF_TRACE)
Rows == Doc[1].rows                  \* <<P, G, N>> limbs
Certs == Doc[2].certs                \* sequence of [p, w, factors]: p prime claimed, witness w, factors = seq of [q, k] with prod q^k = p-1
CertOf(p) == {i \in 1..Len(Certs) : Eq(Certs[i].p, p)}
Two == <<0, 2>>
\* product of q^k
Pow(q, k) == FoldLeft(LAMBDA acc, j : Mul(acc, q), One, [j \in 1..k |-> j])
Prod(fs) == FoldLeft(LAMBDA acc, f : Mul(acc, Pow(f.q, f.k)), One, fs)
\* exact division (p-1)/q given that q divides it: search through the certificate: cofactor is supplied, checked by multiplication
LucasOK(c) == LET pm1 == Sub(c.p, One) IN
   /\ Eq(Prod(c.factors), pm1)
   /\ Eq(ExpMod(c.w, pm1, c.p), One)
   /\ \A i \in 1..Len(c.factors) : /\ Eq(Mul(c.factors[i].q, c.factors[i].cof), pm1)
                                   /\ ~Eq(ExpMod(c.w, c.factors[i].cof, c.p), One)
\* every prime used as a factor is itself 2 or has a certificate (listed earlier: no cycles)
PrimeOK(i) == LET c == Certs[i] IN
   /\ LucasOK(c)
   /\ \A j \in 1..Len(c.factors) : Eq(c.factors[j].q, Two) \/ \E m \in 1..(i - 1) : Eq(Certs[m].p, c.factors[j].q)
AllCertsOK == \A i \in 1..Len(Certs) : PrimeOK(i)
RowOK(r) == LET P == Rows[r][1] G == Rows[r][2] N == Rows[r][3] IN
   /\ CertOf(P) # {}
   /\ LET c == Certs[CHOOSE i \in CertOf(P) : TRUE] pm1 == Sub(P, One) IN
      \* G is a primitive root: order is exactly P-1
      /\ Eq(ExpMod(G, pm1, P), One)
      /\ \A j \in 1..Len(c.factors) : ~Eq(ExpMod(G, c.factors[j].cof, P), One)
      \* N is coprime with P-1: no prime factor of P-1 divides N
      /\ ~IsZero(N)
      /\ \A j \in 1..Len(c.factors) : ~IsZero(Mod(N, c.factors[j].q))
   /\ Lt(One, G) /\ Lt(G, P)
Increasing == \A r \in 1..(Len(Rows) - 1) : Lt(Rows[r][1], Rows[r + 1][1])
Ends == Eq(Rows[1][1], <<0, 3>>) /\ Eq(Rows[Len(Rows)][1], <<65536, 61>>)
\* no gap: sizes 1..2^32+60 are all served, and the row serving n is at most "one power of two" above it is not required
TableOK == AllCertsOK /\ Increasing /\ Ends /\ \A r \in 1..Len(Rows) : RowOK(r)
VARIABLE r
Init == r = 0
\* one step per certificate / row so that TLC reports progress and a failing row is identified
Next == \/ r < Len(Certs) /\ PrimeOK(r + 1) /\ r' = r + 1
        \/ r >= Len(Certs) /\ r < Len(Certs) + Len(Rows) /\ RowOK(r + 1 - Len(Certs)) /\ r' = r + 1
Spec == Init /\ [][Next]_r
HighWater == TLCSet(1, IF r > TLCGet(1) THEN r ELSE TLCGet(1))
ASSUME TLCSet(1, 0)
Accepted == IF TLCGet(1) = Len(Certs) + Len(Rows) /\ Increasing /\ Ends THEN PrintT(<<"TRACE ACCEPTED", Len(Certs) + Len(Rows)>>)
            ELSE Print(<<"REJECTED at event", TLCGet(1) + 1, IF TLCGet(1) < Len(Certs) THEN Certs[TLCGet(1) + 1].p ELSE <<"row", TLCGet(1) + 1 - Len(Certs)>> >>, FALSE)
==============================================================================
