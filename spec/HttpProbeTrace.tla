--------------------------- MODULE HttpProbeTrace ---------------------------
(* C10 binding: what the real elastic / docker Scanner.Scan did against a scripted HTTP(S) server. The expected *)
(* outcome is HttpProbe's: reported iff request 1 (GET / resp. GET /vX/info, after a successful API negotiation)    *)
(* was answered with a JSON object - whatever request 2 does and whichever scheme - the record names the probed    *)
(* host, port and scheme, and every probe ends within its configured timeout per request (+ slack).               *)
EXTENDS Integers, Sequences, FiniteSets, TLC, Json, IOUtils
Trace == ndJsonDeserialize(IOEnv.VERIF_TRACE)
Slack == 900
IsObject(r) == r \in {"object", "emptyObject"}
Expected(e) == IF (e.probe = "elastic" \/ e.ping = "ok") /\ IsObject(e.r1) THEN "hit" ELSE "error"
ProbeOK(e) ==
   /\ e.result = Expected(e)
   /\ (e.result = "hit" => e.recHost = e.target /\ e.recProto = e.proto /\ e.recScan = e.probe /\ e.infoIsObject)
   \* elastic: one deadline per request (two requests); docker: one deadline for the whole probe
   /\ e.durMs <= (IF e.probe = "elastic" THEN 2 * e.T ELSE e.T) + Slack
VARIABLE l
Init == l = 1
Next == l <= Len(Trace) /\ ProbeOK(Trace[l]) /\ l' = l + 1
TSpec == Init /\ [][Next]_l
HighWater == TLCSet(1, IF l > TLCGet(1) THEN l ELSE TLCGet(1))
ASSUME TLCSet(1, 0)
TraceAccepted == IF TLCGet(1) = Len(Trace) + 1 THEN PrintT(<<"TRACE ACCEPTED", Len(Trace)>>)
                 ELSE Print(<<"REJECTED at event", TLCGet(1), Trace[TLCGet(1)]>>, FALSE)
=============================================================================
