SPECIFICATION Spec
CONSTANTS Per = 2 B = 0 K = 6 MaxT = 18 MaxSend = 1 MaxLate = 0
INVARIANTS ChargedOnce Spacing
CHECK_DEADLOCK FALSE
