//go:build verif

package command

// C11 harness, first half: ARP reply frames -> real arp ProcessPacketData -> real result channel -> real JSON
// logger -> lines -> real arp.FillCache -> Cache.Get (4-byte and 16-byte spellings, unknown addresses),
// with concurrent readers during a late Put (under the race detector). ArpCacheTrace.tla decides.
// (The second half - resolver and filler using the right destination MAC - runs with the Targets scenarios.)

import (
	"bytes"
	"context"
	"fmt"
	"math/rand"
	"net"
	"os"
	"strconv"
	"sync"
	"testing"
	"time"

	"github.com/google/gopacket"
	"github.com/v-byte-cpu/sx/command/log"
	"github.com/v-byte-cpu/sx/pkg/scan"
	"github.com/v-byte-cpu/sx/pkg/scan/arp"
)

type vfBufWriter struct {
	mu sync.Mutex
	b  bytes.Buffer
}

func (w *vfBufWriter) Write(p []byte) (int, error) {
	w.mu.Lock()
	defer w.mu.Unlock()
	return w.b.Write(p)
}

func vfRunArpCache(rnd *rand.Rand, nframes int) []map[string]interface{} {
	evs := []map[string]interface{}{{"ev": "Reset"}}
	ctx, cancel := context.WithCancel(context.Background())
	defer cancel()
	results := scan.NewResultChan(ctx, 1000)
	m := arp.NewScanMethod(nil, results)
	w := &vfBufWriter{}
	lg, err := log.NewLogger(w, "arp", log.JSON())
	if err != nil {
		panic(err)
	}
	done := make(chan struct{})
	go func() { lg.LogResults(ctx, m.Results()); close(done) }()
	hosts := 1 + rnd.Intn(12)
	macs := [][]byte{{0, 0, 0, 0, 0, 0}, {0xff, 0xff, 0xff, 0xff, 0xff, 0xff}, {0x00, 0x50, 0x56, 1, 2, 3}, {0x0a, 0x0b, 0x0c, 0x0d, 0x0e, 0x0f}}
	seenIP := map[string]bool{}
	for k := 0; k < nframes; k++ {
		h := rnd.Intn(hosts)
		spa := []byte{10, 66, byte(h / 200), byte(1 + h%200)}
		sha := make([]byte, 6)
		if rnd.Intn(4) == 0 {
			copy(sha, macs[rnd.Intn(len(macs))])
		} else {
			rnd.Read(sha)
		}
		frame := append(vfEth(0x0806), vfARP(1+rnd.Intn(2), 1, 0x0800, 6, 4, sha, spa)...)
		if rnd.Intn(2) == 0 {
			frame = append(frame, make([]byte, 18)...)
		}
		if err := m.ProcessPacketData(frame, &gopacket.CaptureInfo{}); err != nil {
			panic(err)
		}
		evs = append(evs, map[string]interface{}{"ev": "ArpFrame", "spa": vfInts(spa), "sha": vfInts(sha)})
		seenIP[net.IP(spa).String()] = true
	}
	// wait until the logger has printed one line per frame (bounded), then stop it
	deadline := time.Now().Add(10 * time.Second)
	for time.Now().Before(deadline) {
		w.mu.Lock()
		n := bytes.Count(w.b.Bytes(), []byte{'\n'})
		w.mu.Unlock()
		if n >= nframes {
			break
		}
		time.Sleep(200 * time.Microsecond)
	}
	cancel()
	<-done
	w.mu.Lock()
	text := append([]byte{}, w.b.Bytes()...)
	w.mu.Unlock()
	evs = append(evs, map[string]interface{}{"ev": "Lines", "n": bytes.Count(text, []byte{'\n'})})
	cache := arp.NewCache()
	err = arp.FillCache(cache, bytes.NewReader(text))
	ev := map[string]interface{}{"ev": "Loaded", "ok": err == nil}
	if err != nil {
		ev["text"] = err.Error()
	}
	evs = append(evs, ev)
	if err == nil {
		get := func(ipa net.IP, key []byte) {
			mac := cache.Get(ipa)
			mv := []int{}
			if mac != nil {
				mv = vfInts(mac)
			}
			evs = append(evs, map[string]interface{}{"ev": "Get", "ip": vfInts(key), "mac": mv, "form": len(ipa)})
		}
		for h := 0; h < hosts+2; h++ { // two addresses beyond the hosts: never seen
			key := []byte{10, 66, byte(h / 200), byte(1 + h%200)}
			get(net.IP(key), key)
			get(net.IP(key).To16(), key)
		}
		// concurrent readers while an entry is replaced (the race detector watches)
		var wg sync.WaitGroup
		for g := 0; g < 16; g++ {
			wg.Add(1)
			go func(g int) {
				defer wg.Done()
				for i := 0; i < 200; i++ {
					_ = cache.Get(net.IP{10, 66, 0, byte(1 + (g+i)%hosts)})
				}
			}(g)
		}
		cache.Put(net.IP{10, 66, 0, 250}, net.HardwareAddr{2, 2, 2, 2, 2, 2})
		cache.Delete(net.IP{10, 66, 0, 250})
		wg.Wait()
	}
	evs = append(evs, map[string]interface{}{"ev": "End"})
	return evs
}

func TestVfArpCache(t *testing.T) {
	out := vfOpenOut(t, "VF_OUT")
	defer out.close()
	seed, _ := strconv.ParseInt(os.Getenv("VERIF_SEED"), 10, 64)
	nruns, _ := strconv.Atoi(os.Getenv("VF_RUNS"))
	rnd := rand.New(rand.NewSource(seed*472882027 + 3))
	for k := 0; k < nruns; k++ {
		out.write(vfRunArpCache(rnd, 1+rnd.Intn(40)))
	}
	fmt.Printf("VF_RUNS=%d\n", nruns)
}
