"""Untrusted helper for C04: factorizations and Lucas/Pratt witnesses for the primes of the cyclic-group table.
TLC (CyclicTable.tla) only CHECKS what is produced here; a wrong certificate makes the check fail, never pass."""


def factor(n):
    fs = []
    d = 2
    while d * d <= n:
        k = 0
        while n % d == 0:
            n //= d
            k += 1
        if k:
            fs.append((d, k))
        d += 1 if d == 2 else 2
    if n > 1:
        fs.append((n, 1))
    return fs


def limbs(v):
    return [v >> 16, v & 0xffff]


def witness(p, fs):
    for w in range(2, 2000):
        if pow(w, p - 1, p) == 1 and all(pow(w, (p - 1) // q, p) != 1 for q, _ in fs):
            return w
    return 2


def certs_for(primes):
    """certificates, children before parents, for every prime in `primes` and every prime in their factor trees (except 2)"""
    done, order = {}, []

    def go(p):
        if p == 2 or p in done:
            return
        fs = factor(p - 1)
        for q, _ in fs:
            go(q)
        done[p] = True
        order.append({"p": limbs(p), "w": limbs(witness(p, fs)),
                      "factors": [{"q": limbs(q), "k": k, "cof": limbs((p - 1) // q)} for q, k in fs]})
    for p in primes:
        go(p)
    return order
