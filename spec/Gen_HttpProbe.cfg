SPECIFICATION Spec
CONSTANTS Emit = TRUE
CHECK_DEADLOCK FALSE
