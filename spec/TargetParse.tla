----------------------------- MODULE TargetParse -----------------------------
(* Reference grammar of a target argument (pkg/ip ParseIPNet; C02). A string is a sequence of   *)
(* one-character strings. Verdicts:                                                               *)
(*   [v |-> "accept", net |-> [ip, len]]  canonical IPv4 host / IPv4 CIDR: must be accepted as exactly this network *)
(*   [v |-> "exact",  net |-> ...]        denotes an IPv4 network non-canonically (leading zeros): refuse, or exactly this network *)
(*   [v |-> "reject"]                     anything else - every IPv6 spelling, IPv4-mapped forms, garbage: must be refused       *)
EXTENDS Integers, Sequences, SequencesExt, FiniteSets, TLC
Digit == {"0", "1", "2", "3", "4", "5", "6", "7", "8", "9"}
DigitVal(c) == CASE c = "0" -> 0 [] c = "1" -> 1 [] c = "2" -> 2 [] c = "3" -> 3 [] c = "4" -> 4
                 [] c = "5" -> 5 [] c = "6" -> 6 [] c = "7" -> 7 [] c = "8" -> 8 [] c = "9" -> 9
SplitOn(s, sep) == FoldLeft(LAMBDA acc, c : IF c = sep THEN Append(acc, <<>>)
                                            ELSE [acc EXCEPT ![Len(acc)] = Append(@, c)], << <<>> >>, s)
\* a decimal numeral of at most 4 digits: [ok, val, canon]
Num(s) == IF s = <<>> \/ Len(s) > 4 \/ \E i \in 1..Len(s) : s[i] \notin Digit THEN [ok |-> FALSE, val |-> 0, canon |-> FALSE]
          ELSE [ok |-> TRUE, val |-> FoldLeft(LAMBDA a, c : a * 10 + DigitVal(c), 0, s), canon |-> (Len(s) = 1 \/ s[1] # "0")]
Pow2(k) == CASE k = 0 -> 1 [] k = 1 -> 2 [] k = 2 -> 4 [] k = 3 -> 8 [] k = 4 -> 16 [] k = 5 -> 32 [] k = 6 -> 64 [] k = 7 -> 128 [] k = 8 -> 256
Cov(len, k) == IF len >= 8 * k THEN 8 ELSE IF len <= 8 * (k - 1) THEN 0 ELSE len - 8 * (k - 1)
MaskOctet(o, bits) == (o \div Pow2(8 - bits)) * Pow2(8 - bits)
Masked(ip, len) == [k \in 1..4 |-> MaskOctet(ip[k], Cov(len, k))]
Host(s) == LET parts == SplitOn(s, ".") IN
           IF Len(parts) # 4 THEN [ok |-> FALSE, ip |-> <<0, 0, 0, 0>>, canon |-> FALSE]
           ELSE LET n == [k \in 1..4 |-> Num(parts[k])] IN
                [ok |-> \A k \in 1..4 : n[k].ok /\ n[k].val <= 255, ip |-> [k \in 1..4 |-> n[k].val], canon |-> \A k \in 1..4 : n[k].canon]
Reject == [v |-> "reject", net |-> [ip |-> <<0, 0, 0, 0>>, len |-> 0]]
Parse(s) == LET parts == SplitOn(s, "/") IN
   IF Len(parts) = 1 THEN
        LET h == Host(s) IN IF ~h.ok THEN Reject ELSE [v |-> IF h.canon THEN "accept" ELSE "exact", net |-> [ip |-> h.ip, len |-> 32]]
   ELSE IF Len(parts) = 2 THEN
        LET h == Host(parts[1]) p == Num(parts[2]) IN
        IF ~h.ok \/ ~p.ok \/ p.val > 32 THEN Reject
        ELSE [v |-> IF h.canon /\ p.canon THEN "accept" ELSE "exact", net |-> [ip |-> Masked(h.ip, p.val), len |-> p.val]]
   ELSE Reject
\* what the implementation did with the string: outcome in {"ok", "err", "panic"}; for "ok" the network it returned (as 4 octets + prefix length;
\* a result that is not a 4-byte IPv4 network is reported by the harness as len = -1)
Conforms(e) == LET x == Parse(e.chars) IN
   CASE x.v = "accept" -> e.outcome = "ok" /\ e.net.ip = x.net.ip /\ e.net.len = x.net.len
     [] x.v = "exact"  -> e.outcome = "err" \/ (e.outcome = "ok" /\ e.net.ip = x.net.ip /\ e.net.len = x.net.len)
     [] x.v = "reject" -> e.outcome = "err"
==============================================================================
