"""C17 — probes leave through the right interface with the right source.
Spec: Iface.tla (interface / source selection as a relation from host configuration, flags and target to allowed outcomes; the C17 clauses evaluated by TLC on
every small configuration), IfaceTrace.tla (decisions of the real getScanRange in materialised network namespaces)."""
import os
import random
import vf
from checks import wire_tier as wt

LEVEL = "model_checking"
LEVEL_TEXT = ("TLC evaluates AttachedWins, OverridesWin, VpnIffNoMac and NeverEmptySource on the selection relation for all 55 600 configurations with <= 2 interfaces "
              "(quick; more addresses in thorough). Seeded configurations (1..3 interfaces, veth with MAC / tun without, address lists over an attached /24, an "
              "overlapping /16, another /24 and IPv6-only, 0..2 default routes with different metrics, the 12 flag combinations, 5 target positions) are built "
              "in a private network namespace with iproute2, read back as the kernel reports them, and the real getScanRange / getInterface / pkg/ip "
              "functions decide; TLC checks every decision against the relation (any attached interface is allowed where several qualify).")
NOTE = ("Trusted: TLC; iproute2 and the kernel (the configuration handed to the specification is what net.Interfaces / Addrs report after set-up, not what was asked "
        "for). 'Never sends a frame with an empty or foreign source' is checked on the scan.Range that every packet command builds its frames from; reading "
        "frames off the peers of every interface belongs to the socket-level tier. Needs unshare -n (root).")
TECHNIQUE = "TLA+ relation evaluated exhaustively by TLC + decisions of the real code in materialised network namespaces validated against it"
DESIGN_REF = "DESIGN.md section 5, C17"

ADDR_LISTS = [[], ["A24"], ["B24"], ["A16"], ["V6"], ["A24", "A16"], ["A16", "A24"], ["B24", "A24"], ["A24", "V6"], ["V6", "B24"], ["A16", "B24"]]


def scenarios(ctx, n):
    rnd = random.Random(ctx.seed * 17 + 3)
    core = []
    sid = 0
    targets = ["inA24", "inA16only", "inB24", "remote", "none"]
    for _ in range(n):
        nif = rnd.choice([1, 2, 2, 2, 3])
        ifs = [{"kind": rnd.choice(["veth", "veth", "tun"]), "addrs": list(rnd.choice(ADDR_LISTS))} for _ in range(nif)]
        nr = rnd.choice([0, 1, 1, 2])
        pick = rnd.sample(range(1, nif + 1), min(nr, nif))
        metrics = rnd.sample([10, 20, 5], len(pick))
        routes = [[i, m] for i, m in zip(pick, metrics)]
        sid += 1
        core.append({"id": sid, "ifs": ifs, "routes": routes, "fIface": rnd.choice([0, 0, 1, nif]), "fSrcIP": rnd.random() < 0.3, "fSrcV6": rnd.random() < 0.35, "fSrcMAC": rnd.random() < 0.25,
                     "target": rnd.choice(targets)})
        core[-1]["fSrcV6"] = core[-1]["fSrcV6"] and core[-1]["fSrcIP"]
    # fixed core: one scenario per rule of the statement
    fixed = [
        ([("veth", ["A24", "A16"]), ("tun", ["B24"])], [[1, 20], [2, 10]], 0, "inA24"),
        ([("veth", ["A24", "A16"]), ("tun", ["B24"])], [[1, 20], [2, 10]], 0, "inA16only"),
        ([("veth", ["A24", "A16"]), ("tun", ["B24"])], [[1, 20], [2, 10]], 0, "inB24"),
        ([("veth", ["A24", "A16"]), ("tun", ["B24"])], [[1, 20], [2, 10]], 0, "remote"),
        ([("veth", ["A24"]), ("veth", ["B24"])], [[1, 10], [2, 20]], 0, "remote"),
        ([("veth", ["A24"]), ("veth", ["B24"])], [[1, 20], [2, 10]], 0, "none"),
        ([("veth", ["A24"]), ("veth", ["B24"])], [], 0, "remote"),
        ([("veth", ["A24"]), ("veth", ["B24"])], [[1, 10]], 2, "inA24"),
        ([("veth", ["V6"])], [[1, 10]], 1, "inA24"),
        ([("veth", ["V6"])], [[1, 10]], 0, "remote"),
        ([("veth", [])], [[1, 10]], 1, "remote"),
        ([("tun", ["A24"])], [], 0, "inA24"),
    ]
    for ifs, routes, fi, tg in fixed:
        for fs, fm, f6 in ((False, False, False), (True, False, False), (False, True, False), (True, False, True), (True, True, True)):
            sid += 1
            core.append({"id": sid, "ifs": [{"kind": k, "addrs": a} for k, a in ifs], "routes": routes, "fIface": fi, "fSrcIP": fs, "fSrcV6": f6, "fSrcMAC": fm, "target": tg})
    return core


def run(ctx):
    quick = ctx.tier == "quick"
    ctx.cov["rule"] = ("relation: every configuration with <= 2 interfaces x <= 1 address (thorough: 2 addresses); namespaces: 60 fixed rule scenarios (incl. an IPv6 value of --srcip) + seeded random "
                       "configurations (quick 250, thorough 2500); distinct = configurations")
    r = ctx.tlc("MC_Iface", "MC_Iface", workers=1, timeout=1800)
    if not r.no_error or r.assume_false:
        raise vf.Inconclusive("the C17 clauses do not hold on the relation itself (model bug):\n" + r.out[-2000:])
    ctx.cov["states"] += 55600
    sc = scenarios(ctx, 250 if quick else 2500)
    binary = ctx.go_build_test("./command")
    procs = 8
    envs = []
    for k in range(procs):
        sp = os.path.join(ctx.scratch, "c17-scen-%d.ndjson" % k)
        vf.write_ndjson(sp, sc[k::procs])
        envs.append({"VF_SCENARIOS": sp, "VF_OUT": os.path.join(ctx.scratch, "c17-%d.ndjson" % k)})
    import concurrent.futures
    with concurrent.futures.ThreadPoolExecutor(max_workers=procs) as ex:
        res = list(ex.map(lambda e: ctx.go_run_test(binary, "^TestVfIface$", e, 1500, True), envs))
    events = []
    for (rc, out), e in zip(res, envs):
        if rc != 0:
            if "not in a private network namespace" in out or "Operation not permitted" in out:
                raise vf.Inconclusive("cannot create a private network namespace here:\n" + out[-1500:])
            ce = vf.crash_events(ctx, rc, out, "iface")
            ctx.violation("C17:crash", "interface selection crashed: %s" % ce[1]["text"], replay={"output": out[-20000:]})
            return
        events += vf.read_ndjson(e["VF_OUT"])
    ctx.cov["traces_validated_against_impl"] += len(events)
    ctx.count(len(events), [("cfg", str(e["cfg"])) for e in events])
    rest = events
    seen = set()
    while rest:
        p = os.path.join(ctx.scratch, "c17-rest.ndjson")
        vf.write_ndjson(p, rest)
        ok, info = ctx.tlc_trace("IfaceTrace", p, timeout=1800)
        if ok:
            break
        bad = rest[info["index"] - 1]
        o = bad["out"]
        key = "C17:%s" % (o["err"] if o["err"] != "none" else "choice:%s" % bad["cfg"]["target"])
        if key not in seen:
            seen.add(key)
            ctx.violation(key, "configuration %s -> %s: not an outcome the selection relation allows" % (bad["cfg"], o),
                          replay={"property": "C17", "trace_spec": "IfaceTrace", "run": [bad]})
        if len(seen) >= 6:
            break
        rest = rest[:info["index"] - 1] + rest[info["index"]:]
    pick = next((e for e in events if e["out"]["err"] == "none" and len(e["cfg"]["ifs"]) >= 2), None)
    if pick is not None:
        other = 1 if pick["out"]["iface"] != 1 else 2
        vf.selftest_event(ctx, "IfaceTrace", dict(pick, out=dict(pick["out"], iface=other)), "the chosen interface of an accepted decision replaced by another one")
    for e in events[:3]:
        ctx.sample(e)
    # socket-level tier: source MAC / IP (and --srcip / --gwmac overrides) read off the frames of the real binary
    n3, rej = wt.run_wire(ctx, select=lambda s: s["expect"]["kind"] == "packet", label="c17w", focus="source")
    wt.report(ctx, "C17", rej)
