--------------------------- MODULE ReceiverTrace ---------------------------
(* Trace validation for C20: events recorded from the real packet.NewReceiver     *)
(* (scripted Reader, recording Processor, error consumer) must be a behaviour of  *)
(* Receiver. Logged: Reset{script}, Read{i,o}, Proc{i}, ErrSeen{i}, Closed,       *)
(* Cancel.  Unlogged (silent): Check, ReportSend, ReportCtx, Close.               *)
EXTENDS Receiver, Json, IOUtils
Trace == ndJsonDeserialize(IOEnv.VERIF_TRACE)
VARIABLE l
tvars == <<vars, l>>
Ev == Trace[l]
Is(e) == l <= Len(Trace) /\ Ev.ev = e /\ l' = l + 1
TInit == InitRun(<<>>) /\ l = 1
\* a new run may only begin when the previous one has ended cleanly (consumer saw the closed stream)
TReset == /\ Is("Reset") /\ (seenClosed \/ l = 1)
          /\ script' = Ev.script /\ pos' = 1 /\ pc' = "check" /\ errq' = <<>> /\ errClosed' = FALSE /\ ctx' = FALSE
          /\ processed' = <<>> /\ reported' = <<>> /\ got' = <<>> /\ seenClosed' = FALSE
TNext == \/ TReset
         \/ Is("Read") /\ Read /\ Ev.i = pos /\ Ev.o = Cur
         \/ Is("Proc") /\ Process /\ Ev.i = pos - 1
         \/ Is("ErrSeen") /\ Consume /\ Ev.i = Head(errq)
         \/ Is("Closed") /\ SeeClosed
         \/ Is("Cancel") /\ Cancel
         \/ (Internal /\ UNCHANGED l)
\* the quadratic order checks are evaluated once per run, when it has ended
SafeAtEnd == seenClosed => Safe
TSpec == TInit /\ [][TNext]_tvars
HighWater == TLCSet(1, IF l > TLCGet(1) THEN l ELSE TLCGet(1))
ASSUME TLCSet(1, 0)
TraceAccepted == IF TLCGet(1) = Len(Trace) + 1 THEN PrintT(<<"TRACE ACCEPTED", Len(Trace)>>)
                 ELSE Print(<<"REJECTED at event", TLCGet(1), Trace[TLCGet(1)]>>, FALSE)
=============================================================================
