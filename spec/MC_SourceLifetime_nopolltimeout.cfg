SPECIFICATION Spec
CONSTANTS
  Locked = TRUE
  Copying = TRUE
  PollTimeout = FALSE
  MaxFrames = 3
PROPERTY CloseTerminates
CHECK_DEADLOCK FALSE
