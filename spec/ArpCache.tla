------------------------------ MODULE ArpCache ------------------------------
(* pkg/scan/arp/cache.go: Cache (map under an RWMutex), FillCache (one JSON line per entry, the last    *)
(* line for an address wins), cacheReqGenerator (MAC of the request's own destination, else the gateway  *)
(* MAC, else an error). Readers (the request generator, getGatewayMAC) run concurrently with a loader.   *)
(* Put and Get are atomic (the mutex); freedom from data races itself is the race detector's business.   *)
EXTENDS Integers, Sequences, FiniteSets, TLC
CONSTANTS Addr, Mac, MaxLines, NReq, HasGw
NoMac == "none"
GwMac == "gw"
VARIABLES lines,      \* the cache file: sequence of <<addr, mac>>
          loaded,     \* number of lines already put into the cache
          cache,      \* addr -> mac or NoMac
          reqs,       \* destinations of the requests to resolve
          resolved    \* sequence of [dst, mac, err]
vars == <<lines, loaded, cache, reqs, resolved>>
Init == /\ lines \in UNION {[1..n -> Addr \X Mac] : n \in 0..MaxLines}
        /\ loaded = 0 /\ cache = [a \in Addr |-> NoMac]
        /\ reqs \in [1..NReq -> Addr] /\ resolved = <<>>
\* FillCache: one Put per line, in file order
LoadLine == /\ loaded < Len(lines)
            /\ cache' = [cache EXCEPT ![lines[loaded + 1][1]] = lines[loaded + 1][2]]
            /\ loaded' = loaded + 1
            /\ UNCHANGED <<lines, reqs, resolved>>
\* cacheReqGenerator, one request: runs after the cache is complete (parseARPCache precedes the scan), any reader interleaving
Resolve == /\ loaded = Len(lines) /\ Len(resolved) < NReq
           /\ LET d == reqs[Len(resolved) + 1] m == cache[d] IN
              resolved' = Append(resolved, IF m # NoMac THEN [dst |-> d, mac |-> m, err |-> FALSE]
                                           ELSE IF HasGw THEN [dst |-> d, mac |-> GwMac, err |-> FALSE]
                                           ELSE [dst |-> d, mac |-> NoMac, err |-> TRUE])
           /\ UNCHANGED <<lines, loaded, cache, reqs>>
Next == LoadLine \/ Resolve
Spec == Init /\ [][Next]_vars
\* the mac the file assigns to an address: that of its last line
LastOf(a) == LET S == {i \in 1..Len(lines) : lines[i][1] = a} IN IF S = {} THEN NoMac ELSE lines[CHOOSE i \in S : \A j \in S : i >= j][2]
LastWins == loaded = Len(lines) => \A a \in Addr : cache[a] = LastOf(a)
\* each probe goes to the entry of its own destination, else to the gateway, else it is an error - never to another host's MAC
DstMacRight == \A i \in 1..Len(resolved) : LET r == resolved[i] IN
                  /\ (LastOf(r.dst) # NoMac => r.mac = LastOf(r.dst) /\ ~r.err)
                  /\ (LastOf(r.dst) = NoMac /\ HasGw => r.mac = GwMac /\ ~r.err)
                  /\ (LastOf(r.dst) = NoMac /\ ~HasGw => r.err)
NoForeignMac == \A i \in 1..Len(resolved) : \A a \in Addr : (a # resolved[i].dst /\ LastOf(a) # NoMac /\ resolved[i].mac = LastOf(a)) => LastOf(resolved[i].dst) = LastOf(a)
=============================================================================
