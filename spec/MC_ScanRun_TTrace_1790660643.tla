---- MODULE MC_ScanRun_TTrace_1790660643 ----
EXTENDS Sequences, TLCExt, Toolbox, Naturals, TLC, MC_ScanRun

_expression ==
    LET MC_ScanRun_TEExpression == INSTANCE MC_ScanRun_TEExpression
    IN MC_ScanRun_TEExpression!expression
----

_trace ==
    LET MC_ScanRun_TETrace == INSTANCE MC_ScanRun_TETrace
    IN MC_ScanRun_TETrace!trace
----

_inv ==
    ~(
        TLCGet("level") = Len(_TETrace)
        /\
        phase = ("sending")
        /\
        sentN = ([c |-> 0, a |-> 0, b |-> 0])
        /\
        hist = ({})
        /\
        c = (1)
        /\
        now = (0)
        /\
        cancelled = ([t |-> 0, on |-> TRUE, sends |-> 0])
        /\
        closeT = (<<>>)
        /\
        openT = (0)
        /\
        lastSend = (0)
        /\
        queue = ({})
        /\
        out = (<<>>)
    )
----

_init ==
    /\ phase = _TETrace[1].phase
    /\ cancelled = _TETrace[1].cancelled
    /\ sentN = _TETrace[1].sentN
    /\ c = _TETrace[1].c
    /\ out = _TETrace[1].out
    /\ now = _TETrace[1].now
    /\ lastSend = _TETrace[1].lastSend
    /\ hist = _TETrace[1].hist
    /\ openT = _TETrace[1].openT
    /\ queue = _TETrace[1].queue
    /\ closeT = _TETrace[1].closeT
----

_next ==
    /\ \E i,j \in DOMAIN _TETrace:
        /\ \/ /\ j = i + 1
              /\ i = TLCGet("level")
        /\ phase  = _TETrace[i].phase
        /\ phase' = _TETrace[j].phase
        /\ cancelled  = _TETrace[i].cancelled
        /\ cancelled' = _TETrace[j].cancelled
        /\ sentN  = _TETrace[i].sentN
        /\ sentN' = _TETrace[j].sentN
        /\ c  = _TETrace[i].c
        /\ c' = _TETrace[j].c
        /\ out  = _TETrace[i].out
        /\ out' = _TETrace[j].out
        /\ now  = _TETrace[i].now
        /\ now' = _TETrace[j].now
        /\ lastSend  = _TETrace[i].lastSend
        /\ lastSend' = _TETrace[j].lastSend
        /\ hist  = _TETrace[i].hist
        /\ hist' = _TETrace[j].hist
        /\ openT  = _TETrace[i].openT
        /\ openT' = _TETrace[j].openT
        /\ queue  = _TETrace[i].queue
        /\ queue' = _TETrace[j].queue
        /\ closeT  = _TETrace[i].closeT
        /\ closeT' = _TETrace[j].closeT

\* Uncomment the ASSUME below to write the states of the error trace
\* to the given file in Json format. Note that you can pass any tuple
\* to `JsonSerialize`. For example, a sub-sequence of _TETrace.
    \* ASSUME
    \*     LET J == INSTANCE Json
    \*         IN J!JsonSerialize("MC_ScanRun_TTrace_1790660643.json", _TETrace)

=============================================================================

 Note that you can extract this module `MC_ScanRun_TEExpression`
  to a dedicated file to reuse `expression` (the module in the 
  dedicated `MC_ScanRun_TEExpression.tla` file takes precedence 
  over the module `MC_ScanRun_TEExpression` below).

---- MODULE MC_ScanRun_TEExpression ----
EXTENDS Sequences, TLCExt, Toolbox, Naturals, TLC, MC_ScanRun

expression == 
    [
        \* To hide variables of the `MC_ScanRun` spec from the error trace,
        \* remove the variables below.  The trace will be written in the order
        \* of the fields of this record.
        phase |-> phase
        ,cancelled |-> cancelled
        ,sentN |-> sentN
        ,c |-> c
        ,out |-> out
        ,now |-> now
        ,lastSend |-> lastSend
        ,hist |-> hist
        ,openT |-> openT
        ,queue |-> queue
        ,closeT |-> closeT
        
        \* Put additional constant-, state-, and action-level expressions here:
        \* ,_stateNumber |-> _TEPosition
        \* ,_phaseUnchanged |-> phase = phase'
        
        \* Format the `phase` variable as Json value.
        \* ,_phaseJson |->
        \*     LET J == INSTANCE Json
        \*     IN J!ToJson(phase)
        
        \* Lastly, you may build expressions over arbitrary sets of states by
        \* leveraging the _TETrace operator.  For example, this is how to
        \* count the number of times a spec variable changed up to the current
        \* state in the trace.
        \* ,_phaseModCount |->
        \*     LET F[s \in DOMAIN _TETrace] ==
        \*         IF s = 1 THEN 0
        \*         ELSE IF _TETrace[s].phase # _TETrace[s-1].phase
        \*             THEN 1 + F[s-1] ELSE F[s-1]
        \*     IN F[_TEPosition - 1]
    ]

=============================================================================



Parsing and semantic processing can take forever if the trace below is long.
 In this case, it is advised to uncomment the module below to deserialize the
 trace from a generated binary file.

\*
\*---- MODULE MC_ScanRun_TETrace ----
\*EXTENDS IOUtils, TLC, MC_ScanRun
\*
\*trace == IODeserialize("MC_ScanRun_TTrace_1790660643.bin", TRUE)
\*
\*=============================================================================
\*

---- MODULE MC_ScanRun_TETrace ----
EXTENDS TLC, MC_ScanRun

trace == 
    <<
    ([phase |-> "closed",sentN |-> [c |-> 0, a |-> 0, b |-> 0],hist |-> {},c |-> 0,now |-> 0,cancelled |-> [t |-> 0, on |-> FALSE, sends |-> 0],closeT |-> <<>>,openT |-> 0,lastSend |-> 0,queue |-> {},out |-> <<>>]),
    ([phase |-> "closed",sentN |-> [c |-> 0, a |-> 0, b |-> 0],hist |-> {},c |-> 0,now |-> 0,cancelled |-> [t |-> 0, on |-> TRUE, sends |-> 0],closeT |-> <<>>,openT |-> 0,lastSend |-> 0,queue |-> {},out |-> <<>>]),
    ([phase |-> "sending",sentN |-> [c |-> 0, a |-> 0, b |-> 0],hist |-> {},c |-> 1,now |-> 0,cancelled |-> [t |-> 0, on |-> TRUE, sends |-> 0],closeT |-> <<>>,openT |-> 0,lastSend |-> 0,queue |-> {},out |-> <<>>])
    >>
----


=============================================================================

---- CONFIG MC_ScanRun_TTrace_1790660643 ----
CONSTANTS
    Variant = "passAfterCancel"
    AttachAtomic = TRUE

INVARIANT
    _inv

CHECK_DEADLOCK
    \* CHECK_DEADLOCK off because of PROPERTY or INVARIANT above.
    FALSE

INIT
    _init

NEXT
    _next

CONSTANT
    _TETrace <- _trace

ALIAS
    _expression
=============================================================================
\* Generated on Tue Sep 29 05:44:04 UTC 2026