"""C07 — packet pipeline: nothing lost, duplicated or altered before the wire.
Spec: PacketScan.tla (goroutine/channel level, TLC exhaustive, refines PacketScanObs),
PacketScanObs.tla + PacketScanObsTrace.tla (validation of traces recorded at the seams of the real pipeline)."""
import os
import vf

LEVEL = "model_checking"
LEVEL_TEXT = ("TLC checks the goroutine-level model PacketScan (request source, N builders, merger, sender, buffer pool with identity, "
              "error stream; every error placement, every interleaving, small constants) for WireFaithful / WireNoDup / Complete / "
              "OneErrorPerFailure / DoneAfterLastWrite and its refinement to the seam-level specification PacketScanObs; a model with "
              "the buffer freed before the write must fail WireFaithful (non-vacuity). Behaviours of that model simulated by TLC (who steps when, "
              "which requests / builds / writes fail, where the cancellation falls; plus a cancellation inserted before every 4th - thorough: "
              "every - step; thorough: 5 100 schedules of 2..8 requests and 1..3 builders, 136 000 replayed runs) are replayed through the real generator, merger and sender goroutines by a director that holds every goroutine at "
              "gate hooks (build tag verif) and releases one at a time: every step must be the model action between its two program points "
              "(PacketScanL1Trace), and the seam events of the run a behaviour of PacketScanObs. Free-running, perturbed, race-detector executions "
              "of the real NewPacketSource+NewPacketMultiGenerator+NewSender+NewReceiver+NewPacketEngine (1..64 builders, up to 3500 "
              "requests, more failures than every channel buffer, writer holding frames while other frames are built) are recorded at "
              "the seams and every trace must be a behaviour of PacketScanObs (TLC trace validation).")
NOTE = ("Trusted: TLC; the recording seams of the overlay harness (request generator, filler, limiter, writer, reader, error consumer); "
        "the gate hooks of /repo (MANIFEST.hooks) and the director; interleavings are enumerated in the model; in the code the replayed "
        "schedules are a random sample of the model's behaviours (small request counts) and the free runs a sample of the scheduler's; "
        "sync.Pool is modelled as a finite free set. A step-level mismatch with no violated clause is reported as model drift (exit 2).")
TECHNIQUE = "TLA+ model checking (TLC) with refinement + replay of TLC-simulated schedules through the real goroutines (gate hooks) + trace validation against the goroutine-level and seam-level specs"
DESIGN_REF = "DESIGN.md section 5, C07"


def pipeline_traces(ctx, free, big, cancel, procs, label):
    binary = ctx.go_build_test("./pkg/scan")
    envs = []
    for k in range(procs):
        envs.append({"VF_OUT": os.path.join(ctx.scratch, "%s-%d.ndjson" % (label, k)), "VF_FREE_RUNS": free, "VF_BIG_RUNS": big,
                     "VF_CANCEL_RUNS": cancel, "VERIF_SEED": ctx.seed * 1000 + k})
    res = vf.go_run_many(ctx, binary, "^TestVfPipeline$", envs, timeout=1500)
    events = []
    for (rc, out), e in zip(res, envs):
        if os.path.exists(e["VF_OUT"]):
            events += vf.read_ndjson(e["VF_OUT"])
        events += vf.crash_events(ctx, rc, out, label)
    trace = os.path.join(ctx.scratch, label + "-all.ndjson")
    vf.write_ndjson(trace, events)
    return trace


def keyfn(run, evt):
    return "%s:%s:%s" % ("pipeline", evt.get("ev"), evt.get("kind", evt.get("what", "")))


def run(ctx):
    if ctx.replay:
        return vf.replay_trace(ctx, ctx.replay)
    quick = ctx.tier == "quick"
    ctx.cov["rule"] = ("model: all interleavings for the stated constants; runs: seeded random configurations (requests 1..3500, builders "
                       "1..64, GOMAXPROCS 1..16, request/build/write failure rates 0..60 %, slow error consumer, writer holding frames); "
                       "distinct = recorded runs (each a different seed/configuration)")
    ctx.tlc_mc("PacketScan", "MC_PacketScan_R2W2", workers=8, timeout=600)
    ctx.tlc_mc("PacketScan", "MC_PacketScan_bugfree", workers=4, timeout=600, expect_violation="WireFaithful")
    if not quick:
        ctx.tlc_mc("PacketScan", "MC_PacketScan_R3W2", workers=16, timeout=3000, xmx="16g")
    trace = pipeline_traces(ctx, free=60 if quick else 700, big=2 if quick else 12, cancel=0, procs=4 if quick else 8, label="c07")
    nruns, nev = vf.validate_runs(ctx, "PacketScanObsTrace", trace, keyfn=keyfn, label="pipeline free runs", timeout=3000)
    # the same pipeline under the real runner with one real (icmp) filler shared by 8-16 builders, as the commands wire it
    from checks import c16
    ta, _tb = c16.pkt_traces(ctx, 0, 0, 2 if quick else 6, "c07r", real_runs=2 if quick else 6)
    n2, _ = vf.validate_runs(ctx, "PacketScanObsTrace", ta, keyfn=keyfn, label="pipeline with a shared real filler", timeout=3000)
    # TLC-generated schedules of the goroutine-level model stepped through the real goroutines (gate hooks, build tag verif)
    from checks import gate_common
    cfgs = [(3, 2, 150, 150), (4, 3, 60, 100), (2, 1, 40, 40), (5, 2, 0, 60)] if quick else \
           [(3, 2, 2000, 800), (4, 3, 1000, 500), (2, 1, 300, 300), (5, 2, 500, 400), (4, 1, 300, 300), (6, 3, 200, 250), (8, 2, 100, 100)]
    n3, _ = gate_common.gate_replay(ctx, cfgs, cancel_every=4 if quick else 1)      # thorough: 136 k runs, 5.8 M steps, 140 s (measured)
    # the number of builders is the command's choice (processors, rate): with one processor and with a rate below one packet per second
    # the real binary still writes one frame per request before it signals completion
    from checks import wire_tier as wt
    names = ("arp-subpps-rate", "arp-one-cpu", "tcp-one-cpu")
    n4, rej = wt.run_wire(ctx, select=lambda sc: sc["name"] in names, label="c07w", focus="coverage")
    wt.report(ctx, "C07", rej)
    ctx.count(0, [("run", i) for i in range(nruns + n2 + n3 + n4)])
    for r0 in vf.split_runs(vf.read_ndjson(trace))[:2]:
        ctx.sample(r0[:60])
    ctx.assumptions += ["sync.Pool is a finite free set without GC in the model",
                        "a run whose done channel stays open 30 s after the last request, or whose error stream stays open 10 s after cancel, is a hang",
                        "frames identify their request (id in the first 8 bytes); the writer compares bytes with what the filler produced, at entry and at exit"]
