------------------------------- MODULE Options -------------------------------
(* Reference semantics of sx's option parsers (command/config.go, command/tcp.go; C18).            *)
(* A string is a sequence of one-character strings. A verdict is                                    *)
(*   [v |-> "accept", val |-> x]  canonical text: must be accepted with exactly this value           *)
(*   [v |-> "exact",  val |-> x]  denotes x non-canonically (leading zeros, sign): refuse, or exactly x *)
(*   [v |-> "reject"]             denotes nothing: must be refused                                    *)
(*   [v |-> "any"]                outside the grammar modelled here: only totality (no crash) is demanded *)
(* In every case the parser must terminate without crashing.                                          *)
EXTENDS Integers, Sequences, SequencesExt, FiniteSets, TLC
Digit == {"0", "1", "2", "3", "4", "5", "6", "7", "8", "9"}
DigitVal(c) == CASE c = "0" -> 0 [] c = "1" -> 1 [] c = "2" -> 2 [] c = "3" -> 3 [] c = "4" -> 4
                 [] c = "5" -> 5 [] c = "6" -> 6 [] c = "7" -> 7 [] c = "8" -> 8 [] c = "9" -> 9
SplitOn(s, sep) == FoldLeft(LAMBDA acc, c : IF c = sep THEN Append(acc, <<>>)
                                            ELSE [acc EXCEPT ![Len(acc)] = Append(@, c)], << <<>> >>, s)
StripZeros(s) == LET nz == {i \in 1..Len(s) : s[i] # "0"} IN
                 IF nz = {} THEN (IF s = <<>> THEN <<>> ELSE <<"0">>) ELSE SubSeq(s, CHOOSE i \in nz : \A j \in nz : i <= j, Len(s))
AllDigits(s) == s # <<>> /\ \A i \in 1..Len(s) : s[i] \in Digit
\* decimal numeral with value <= max (max < 2^31): [ok, val, canon]
NumUpTo(s, max) == IF ~AllDigits(s) THEN [ok |-> FALSE, val |-> 0, canon |-> FALSE]
                   ELSE LET z == StripZeros(s) IN
                        IF Len(z) > 9 THEN [ok |-> FALSE, val |-> 0, canon |-> FALSE]
                        ELSE LET v == FoldLeft(LAMBDA a, c : a * 10 + DigitVal(c), 0, z) IN
                             [ok |-> v <= max, val |-> v, canon |-> z = s]
Reject == [v |-> "reject", val |-> <<>>]
AnyV == [v |-> "any", val |-> <<>>]

(* ---------------- -p / --ports : "a", "a-b", comma separated ---------------- *)
PRange(s) == LET parts == SplitOn(s, "-") IN
            IF Len(parts) = 1 THEN LET a == NumUpTo(parts[1], 65535) IN [ok |-> a.ok, lo |-> a.val, hi |-> a.val, canon |-> a.canon]
            ELSE IF Len(parts) = 2 THEN LET a == NumUpTo(parts[1], 65535) b == NumUpTo(parts[2], 65535) IN
                 [ok |-> a.ok /\ b.ok, lo |-> a.val, hi |-> b.val, canon |-> a.canon /\ b.canon]
            ELSE [ok |-> FALSE, lo |-> 0, hi |-> 0, canon |-> FALSE]            \* "1-2-3" denotes nothing
ParsePorts(s) == LET fs == SplitOn(s, ",") rs == [i \in 1..Len(fs) |-> PRange(fs[i])] IN
                 IF \E i \in 1..Len(rs) : ~rs[i].ok THEN Reject
                 ELSE [v |-> IF \A i \in 1..Len(rs) : rs[i].canon THEN "accept" ELSE "exact",
                       val |-> [i \in 1..Len(rs) |-> <<rs[i].lo, rs[i].hi>>]]

(* ---------------- ports file / exclusion file: lines, '#' comments, blanks ---------------- *)
StripComment(s) == LET h == {i \in 1..Len(s) : s[i] = "#"} IN
                   IF h = {} THEN s ELSE SubSeq(s, 1, (CHOOSE i \in h : \A j \in h : i <= j) - 1)
TrimSpaces(s) == LET ns == {i \in 1..Len(s) : s[i] # " "} IN
                 IF ns = {} THEN <<>> ELSE SubSeq(s, CHOOSE i \in ns : \A j \in ns : i <= j, CHOOSE i \in ns : \A j \in ns : i >= j)
Content(line) == TrimSpaces(StripComment(line))
\* lines longer than the scanner's buffer cannot be read: the file as a whole denotes nothing
TooLong(lines) == \E i \in 1..Len(lines) : Len(lines[i]) > 65535
ParsePortsFile(lines) ==
   IF TooLong(lines) THEN Reject
   ELSE LET cs == SelectSeq([i \in 1..Len(lines) |-> Content(lines[i])], LAMBDA c : c # <<>>)
            rs == [i \in 1..Len(cs) |-> PRange(cs[i])] IN
        IF \E i \in 1..Len(rs) : ~rs[i].ok THEN Reject
        ELSE [v |-> IF \A i \in 1..Len(rs) : rs[i].canon THEN "accept" ELSE "exact", val |-> [i \in 1..Len(rs) |-> <<rs[i].lo, rs[i].hi>>]]

(* ---------------- --rate : "N" | "N/W", W = [count]unit ---------------- *)
\* the window is returned as <<milliseconds, nanoseconds below a millisecond>> (TLC integers are 32-bit)
UnitOf(u) == CASE u = <<"n", "s">> -> <<0, 1>> [] u = <<"u", "s">> -> <<0, 1000>> [] u = <<"m", "s">> -> <<1, 0>>
               [] u = <<"s">> -> <<1000, 0>> [] u = <<"m">> -> <<60000, 0>> [] u = <<"h">> -> <<3600000, 0>> [] OTHER -> <<-1, -1>>
ScaleWin(k, u) == LET ns == k * u[2] IN <<k * u[1] + (ns \div 1000000), ns % 1000000>>        \* k <= 500 keeps every product below 2^31
ParseWindow(w) == LET ds == {i \in 1..Len(w) : w[i] \notin Digit}
                      cut == IF ds = {} THEN Len(w) + 1 ELSE CHOOSE i \in ds : \A j \in ds : i <= j
                      cnt == SubSeq(w, 1, cut - 1) unit == SubSeq(w, cut, Len(w))
                      u == UnitOf(unit) IN
                  IF u = <<-1, -1>> THEN [k |-> "any"]                                        \* compound / fractional durations: not modelled
                  ELSE IF cnt = <<>> THEN [k |-> "ok", canon |-> TRUE, win |-> ScaleWin(1, u)]
                  ELSE LET n == NumUpTo(cnt, 500) IN
                       IF ~n.ok THEN [k |-> "any"] ELSE [k |-> "ok", canon |-> n.canon, win |-> ScaleWin(n.val, u)]
ParseRate(s) == LET parts == SplitOn(s, "/") IN
   IF Len(parts) > 2 THEN Reject
   ELSE LET n == NumUpTo(parts[1], 2147483647) IN
        IF ~AllDigits(parts[1]) THEN (IF parts[1] # <<>> /\ parts[1][1] \in {"+", "-"} /\ AllDigits(Tail(parts[1])) THEN AnyV ELSE Reject)
        ELSE IF Len(StripZeros(parts[1])) = 10 THEN AnyV                                        \* 10-digit counts do not fit a TLC integer: not modelled
        ELSE IF ~n.ok THEN Reject
        ELSE IF Len(parts) = 1 THEN [v |-> IF n.canon THEN "accept" ELSE "exact", val |-> <<n.val, 1000, 0>>]
        ELSE IF parts[2] = <<>> THEN AnyV                                                       \* "N/": the code treats it as one second; not settled by the statement
        ELSE LET w == ParseWindow(parts[2]) IN
             IF w.k = "any" THEN AnyV
             ELSE [v |-> IF n.canon /\ w.canon THEN "accept" ELSE "exact", val |-> <<n.val, w.win[1], w.win[2]>>]

(* ---------------- --flags (TCP) and --ipflags: comma separated names, any letter case ---------------- *)
Lower(c) == CASE c = "A" -> "a" [] c = "C" -> "c" [] c = "D" -> "d" [] c = "E" -> "e" [] c = "F" -> "f" [] c = "H" -> "h" [] c = "I" -> "i"
              [] c = "K" -> "k" [] c = "L" -> "l" [] c = "M" -> "m" [] c = "N" -> "n" [] c = "P" -> "p" [] c = "R" -> "r" [] c = "S" -> "s"
              [] c = "T" -> "t" [] c = "U" -> "u" [] c = "V" -> "v" [] c = "W" -> "w" [] c = "Y" -> "y" [] c = "G" -> "g" [] OTHER -> c
LowerS(s) == [i \in 1..Len(s) |-> Lower(s[i])]
TcpBit(n) == CASE n = <<"f", "i", "n">> -> 1 [] n = <<"s", "y", "n">> -> 2 [] n = <<"r", "s", "t">> -> 4 [] n = <<"p", "s", "h">> -> 8
               [] n = <<"a", "c", "k">> -> 16 [] n = <<"u", "r", "g">> -> 32 [] n = <<"e", "c", "e">> -> 64 [] n = <<"c", "w", "r">> -> 128
               [] n = <<"n", "s">> -> 256 [] OTHER -> 0
IpBit(n) == CASE n = <<"m", "f">> -> 1 [] n = <<"d", "f">> -> 2 [] n = <<"e", "v", "i", "l">> -> 4 [] OTHER -> 0
\* bitwise OR of distinct powers of two = sum over the SET of bits named
OrBits(bits) == LET S == {bits[i] : i \in 1..Len(bits)} IN FoldLeft(LAMBDA a, b : a + b, 0, SetToSeq(S))
ParseFlags(s, bitOf(_)) ==
   IF s = <<>> THEN [v |-> "accept", val |-> 0]
   ELSE LET fs == SplitOn(s, ",") bs == [i \in 1..Len(fs) |-> bitOf(LowerS(fs[i]))] IN
        IF \E i \in 1..Len(bs) : bs[i] = 0 THEN Reject ELSE [v |-> "accept", val |-> OrBits(bs)]
ParseTcpFlags(s) == ParseFlags(s, TcpBit)
ParseIpFlags(s) == ParseFlags(s, IpBit)

(* ---------------- --payload: the text between double quotes of a Go string literal ---------------- *)
HexVal(c) == CASE c \in Digit -> DigitVal(c) [] c \in {"a", "A"} -> 10 [] c \in {"b", "B"} -> 11 [] c \in {"c", "C"} -> 12
               [] c \in {"d", "D"} -> 13 [] c \in {"e", "E"} -> 14 [] c \in {"f", "F"} -> 15 [] OTHER -> -1
OctVal(c) == IF c \in {"0", "1", "2", "3", "4", "5", "6", "7"} THEN DigitVal(c) ELSE -1
\* printable ASCII code of a one-character string (the generator only uses these)
Ascii(c) == CASE c = " " -> 32 [] c = "!" -> 33 [] c = "\"" -> 34 [] c = "#" -> 35 [] c = "%" -> 37 [] c = "'" -> 39 [] c = "-" -> 45 [] c = "/" -> 47
              [] c \in Digit -> 48 + DigitVal(c) [] c = "A" -> 65 [] c = "B" -> 66 [] c = "F" -> 70 [] c = "X" -> 88 [] c = "\\" -> 92
              [] c = "a" -> 97 [] c = "b" -> 98 [] c = "c" -> 99 [] c = "f" -> 102 [] c = "n" -> 110 [] c = "r" -> 114 [] c = "t" -> 116 [] c = "u" -> 117
              [] c = "v" -> 118 [] c = "x" -> 120 [] c = "z" -> 122 [] c = "q" -> 113 [] OTHER -> -1
Utf8(cp) == IF cp < 128 THEN <<cp>>
            ELSE IF cp < 2048 THEN <<192 + (cp \div 64), 128 + (cp % 64)>>
            ELSE <<224 + (cp \div 4096), 128 + ((cp \div 64) % 64), 128 + (cp % 64)>>
\* one step of the unescaper: state [i, out, ok, any]
RECURSIVE Unq(_, _, _)
Unq(s, i, out) ==
   IF i > Len(s) THEN [v |-> "accept", val |-> out]
   ELSE IF s[i] = "\"" THEN Reject                                       \* an unescaped quote ends the literal early
   ELSE IF s[i] # "\\" THEN (IF Ascii(s[i]) = -1 THEN AnyV ELSE Unq(s, i + 1, Append(out, Ascii(s[i]))))
   ELSE IF i = Len(s) THEN Reject                                       \* dangling backslash
   ELSE LET e == s[i + 1] IN
        CASE e = "n" -> Unq(s, i + 2, Append(out, 10)) [] e = "t" -> Unq(s, i + 2, Append(out, 9)) [] e = "r" -> Unq(s, i + 2, Append(out, 13))
          [] e = "a" -> Unq(s, i + 2, Append(out, 7)) [] e = "b" -> Unq(s, i + 2, Append(out, 8)) [] e = "f" -> Unq(s, i + 2, Append(out, 12))
          [] e = "v" -> Unq(s, i + 2, Append(out, 11)) [] e = "\\" -> Unq(s, i + 2, Append(out, 92)) [] e = "\"" -> Unq(s, i + 2, Append(out, 34))
          [] e = "x" -> IF i + 3 <= Len(s) /\ HexVal(s[i + 2]) >= 0 /\ HexVal(s[i + 3]) >= 0
                        THEN Unq(s, i + 4, Append(out, HexVal(s[i + 2]) * 16 + HexVal(s[i + 3]))) ELSE Reject
          [] OctVal(e) >= 0 -> IF i + 3 <= Len(s) /\ OctVal(s[i + 2]) >= 0 /\ OctVal(s[i + 3]) >= 0 /\ OctVal(e) * 64 + OctVal(s[i + 2]) * 8 + OctVal(s[i + 3]) <= 255
                               THEN Unq(s, i + 4, Append(out, OctVal(e) * 64 + OctVal(s[i + 2]) * 8 + OctVal(s[i + 3]))) ELSE Reject
          [] e = "u" -> IF i + 5 <= Len(s) /\ \A k \in 2..5 : HexVal(s[i + k]) >= 0
                        THEN LET cp == HexVal(s[i + 2]) * 4096 + HexVal(s[i + 3]) * 256 + HexVal(s[i + 4]) * 16 + HexVal(s[i + 5]) IN
                             IF cp >= 55296 /\ cp <= 57343 THEN Reject ELSE Unq(s, i + 6, out \o Utf8(cp))
                        ELSE Reject
          [] e = "U" -> AnyV                                                 \* 8-digit escapes: not modelled
          [] OTHER -> Reject                                              \* \' \q \z ... are not escapes of a double-quoted literal
ParsePayload(s) == Unq(s, 1, <<>>)
\* the canonical rendering of a byte string: \xHH for every byte
HexDigit(n) == CASE n < 10 -> <<"0", "1", "2", "3", "4", "5", "6", "7", "8", "9">>[n + 1] [] OTHER -> <<"a", "b", "c", "d", "e", "f">>[n - 9]
RenderPayload(bytes) == FoldLeft(LAMBDA acc, b : acc \o <<"\\", "x", HexDigit(b \div 16), HexDigit(b % 16)>>, <<>>, bytes)

(* ---------------- conformance of one recorded parse ---------------- *)
\* e: [which, chars | lines, outcome in {"ok","err","panic"}, val]
Expected(e) == CASE e.which = "ports" -> ParsePorts(e.chars)
                 [] e.which = "portsfile" -> ParsePortsFile(e.lines)
                 [] e.which = "rate" -> ParseRate(e.chars)
                 [] e.which = "tcpflags" -> ParseTcpFlags(e.chars)
                 [] e.which = "ipflags" -> ParseIpFlags(e.chars)
                 [] e.which = "payload" -> ParsePayload(e.chars)
Conforms(e) == LET x == Expected(e) IN
   /\ e.outcome # "panic"
   /\ CASE x.v = "accept" -> e.outcome = "ok" /\ e.val = x.val
        [] x.v = "exact"  -> e.outcome = "err" \/ (e.outcome = "ok" /\ e.val = x.val)
        [] x.v = "reject" -> e.outcome = "err"
        [] x.v = "any"    -> TRUE
==============================================================================
