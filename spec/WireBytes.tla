------------------------------ MODULE WireBytes ------------------------------
(* Byte-level reference for the probe frames built by tcp/udp/icmp/arp PacketFiller.Fill (C05). *)
(* A frame is a sequence of octets. Nothing here is derived from gopacket.                       *)
EXTENDS Integers, Sequences, SequencesExt, TLC
Hi(x) == x \div 256
Lo(x) == x % 256
B16(x) == <<Hi(x), Lo(x)>>
U16(s, i) == s[i] * 256 + s[i + 1]
Words(s) == [k \in 1..((Len(s) + 1) \div 2) |-> s[2 * k - 1] * 256 + (IF 2 * k <= Len(s) THEN s[2 * k] ELSE 0)]
Fold16(x) == LET a == (x % 65536) + (x \div 65536) IN (a % 65536) + (a \div 65536)
Cksum(s) == 65535 - Fold16(FoldLeft(LAMBDA acc, w : acc + w, 0, Words(s)))     \* internet checksum of s (field zeroed)
PutCk(s, at) == LET c == Cksum(s) IN [s EXCEPT ![at] = Hi(c), ![at + 1] = Lo(c)]
(* ---- encoders ---- *)
\* IPv4 header, IHL 5. flags3 is the 3-bit flags field (evil=4, DF=2, MF=1). len is the total-length FIELD.
IPv4Hdr(id, flags3, ttl, proto, src, dst, len) ==
   PutCk(<<69, 0>> \o B16(len) \o B16(id) \o <<flags3 * 32, 0, ttl, proto, 0, 0>> \o src \o dst, 11)
Pseudo(src, dst, proto, l4len) == src \o dst \o <<0, proto>> \o B16(l4len)
TcpOpts == <<2, 4, 5, 180, 4, 2, 3, 3, 7, 0, 0, 0>>        \* MSS 1460, SACK permitted, window scale 7, padded to 32-bit
\* flags9: NS=256 CWR=128 ECE=64 URG=32 ACK=16 PSH=8 RST=4 SYN=2 FIN=1
TcpSeg(src, dst, sport, dport, seq, flags9) ==
   LET raw == B16(sport) \o B16(dport) \o seq \o <<0, 0, 0, 0>> \o <<8 * 16 + (flags9 \div 256), flags9 % 256>> \o B16(64240) \o <<0, 0, 0, 0>> \o TcpOpts
       ck  == Cksum(Pseudo(src, dst, 6, Len(raw)) \o raw) IN
   [raw EXCEPT ![17] = Hi(ck), ![18] = Lo(ck)]
UdpSeg(src, dst, sport, dport, lenField, payload) ==
   LET raw == B16(sport) \o B16(dport) \o B16(lenField) \o <<0, 0>> \o payload
       ck  == Cksum(Pseudo(src, dst, 17, Len(raw)) \o raw) IN       \* pseudo-header: protocol 17 and the real segment length, also under --iplen/--ipproto
   [raw EXCEPT ![7] = Hi(ck), ![8] = Lo(ck)]
IcmpMsg(type, code, id, seq, payload) == PutCk(<<type, code, 0, 0>> \o B16(id) \o B16(seq) \o payload, 3)
Eth(dst, src, et) == dst \o src \o B16(et)
ArpReq(smac, sip, tip) == <<0, 1, 8, 0, 6, 4, 0, 1>> \o smac \o sip \o <<0, 0, 0, 0, 0, 0>> \o tip
Bcast == <<255, 255, 255, 255, 255, 255>>
(* ---- the four probes: r = requested fields, o = filler options, x = the random fields (inferred from the frame) ---- *)
Link(vpn, r, et, body) == IF vpn THEN body ELSE Eth(r.dstmac, r.srcmac, et) \o body
TcpProbe(vpn, r, o, x) == LET seg == TcpSeg(r.srcip, r.dstip, x.sport, r.dport, x.seq, o.flags) IN
   Link(vpn, r, 2048, IPv4Hdr(x.ipid, 2, 64, 6, r.srcip, r.dstip, 20 + Len(seg)) \o seg)
UdpProbe(vpn, r, o, x) ==
   LET fix == o.iplen = 0
       seg == UdpSeg(r.srcip, r.dstip, x.sport, r.dport, IF fix THEN 8 + Len(o.payload) ELSE 0, o.payload) IN
   Link(vpn, r, 2048, IPv4Hdr(x.ipid, o.ipflags, o.ttl, o.ipproto, r.srcip, r.dstip, IF fix THEN 20 + Len(seg) ELSE o.iplen) \o seg)
IcmpProbe(vpn, r, o, x) ==
   LET msg == IcmpMsg(o.type, o.code, x.icmpid, 1, IF o.defaultPayload THEN x.payload48 ELSE o.payload) IN
   Link(vpn, r, 2048, IPv4Hdr(x.ipid, o.ipflags, o.ttl, o.ipproto, r.srcip, r.dstip, IF o.iplen = 0 THEN 20 + Len(msg) ELSE o.iplen) \o msg)
ArpProbe(r) == Eth(Bcast, r.srcmac, 2054) \o ArpReq(r.srcmac, r.srcip, r.dstip)
(* ---- C05: the frame is the encoding of the request for SOME in-range random fields; trailing zero padding up to 60 octets is the link's ---- *)
Unpad(f, n) == IF Len(f) >= n /\ Len(f) <= 60 /\ \A i \in (n + 1)..Len(f) : f[i] = 0 THEN SubSeq(f, 1, n) ELSE f
L3(vpn, f) == IF vpn THEN f ELSE SubSeq(f, 15, Len(f))
Rand(vpn, kind, f) == LET p == L3(vpn, f) IN
   [ipid |-> U16(p, 5), sport |-> U16(p, 21), seq |-> SubSeq(p, 25, 28), icmpid |-> U16(p, 25),
    payload48 |-> IF Len(p) >= 76 THEN SubSeq(p, 29, 76) ELSE <<>>]        \* the icmp filler's default payload: 48 random bytes
RandOK(kind, x) == x.ipid \in 1..65535 /\ (kind \in {"tcp", "udp"} => x.sport \in 32768..60999) /\ (kind = "icmp" => x.icmpid \in 1..65535)
ProbeOK(e) ==
   IF e.kind = "arp" THEN Unpad(e.bytes, 42) = ArpProbe(e.req)
   ELSE /\ Len(L3(e.vpn, e.bytes)) >= 28
        /\ LET x == Rand(e.vpn, e.kind, e.bytes)
               want == CASE e.kind = "tcp" -> TcpProbe(e.vpn, e.req, e.opts, x)
                         [] e.kind = "udp" -> UdpProbe(e.vpn, e.req, e.opts, x)
                         [] e.kind = "icmp" -> IcmpProbe(e.vpn, e.req, e.opts, x) IN
           RandOK(e.kind, x) /\ Unpad(e.bytes, Len(want)) = want
==============================================================================
