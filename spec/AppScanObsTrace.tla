--------------------------- MODULE AppScanObsTrace ---------------------------
(* Trace validation for C08 / C12 / C15 (application path): events recorded at    *)
(* the seams of the real GenericEngine + resultChan + startScanEngine + logger    *)
(* must be a behaviour of AppScanObs.                                             *)
EXTENDS AppScanObs, Json, TLC, IOUtils
Trace == ndJsonDeserialize(IOEnv.VERIF_TRACE)
VARIABLE l
tvars == <<avars, l>>
TInit == AInitRun(0, 1, FALSE, FALSE) /\ l = 1
Ev == Trace[l]
Is(e) == l <= Len(Trace) /\ Ev.ev = e /\ l' = l + 1
TReset == /\ Is("Reset") /\ (returned \/ l = 1)
          /\ total' = Ev.n /\ nw' = Ev.w /\ gen' = 0 /\ kHit' = {} /\ kMiss' = {} /\ kFail' = {} /\ kReqErr' = {}
          /\ busy' = {} /\ ended' = {} /\ printed' = {} /\ errs' = {}
          /\ done' = FALSE /\ returned' = FALSE /\ cancelled' = FALSE /\ exact' = Ev.exact /\ limited' = Ev.limited /\ charged' = 0
TNext == \/ TReset
         \/ Is("Gen") /\ Gen(Ev.id, Ev.kind)
         \/ Is("Take") /\ Take
         \/ Is("ScanBegin") /\ ScanBegin(Ev.id) /\ ~Ev.doneClosed
         \/ Is("ScanEnd") /\ ScanEnd(Ev.id, Ev.outcome)
         \/ Is("Line") /\ Line(Ev.id)
         \/ Is("ErrLogged") /\ ErrLogged(Ev.id)
         \/ Is("DoneSeen") /\ DoneSeen
         \/ Is("Returned") /\ Returned
         \/ Is("Cancel") /\ Cancel
TSpec == TInit /\ [][TNext]_tvars
HighWater == TLCSet(1, IF l > TLCGet(1) THEN l ELSE TLCGet(1))
ASSUME TLCSet(1, 0)
TraceAccepted == IF TLCGet(1) = Len(Trace) + 1 THEN PrintT(<<"TRACE ACCEPTED", Len(Trace)>>)
                 ELSE Print(<<"REJECTED at event", TLCGet(1), Trace[TLCGet(1)]>>, FALSE)
AtReturn == returned => (OnlyHitsPrinted /\ OnlyFailuresLogged /\ ExactAtReturn)
===============================================================================
