SPECIFICATION Spec
CONSTANTS Vpn = FALSE Fixed = FALSE MaxFrames = 3
INVARIANTS AtMostOnePerFrame NoPhantom ChainPresent
CHECK_DEADLOCK FALSE
