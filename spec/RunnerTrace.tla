---------------------------- MODULE RunnerTrace ----------------------------
(* C16 on measured times: events recorded around the real startScanEngine driving  *)
(* a real packet engine. The clauses are those of Runner.tla (NoEarlyCancel,       *)
(* LateReplyReported, ExitsAfterDelay) with real clock values (microseconds).      *)
(* Lower bounds are exact: LastProbe is logged by the writer seam *before* the     *)
(* sender can signal completion, CtxCancelled is logged *after* the context was    *)
(* cancelled, so the measured gap can only be larger than the true one.            *)
EXTENDS Integers, Sequences, FiniteSets, TLC, Json, IOUtils
Trace == ndJsonDeserialize(IOEnv.VERIF_TRACE)
Bound == 3000000          \* "exits within bounded time": 3 s after the delay is over
SafeFrac1000 == 500       \* a reply delivered during the first half of the delay must be reported
VARIABLES l, delay, lastProbe, doneAt, cancelAt, sigint, injected, printed, returnedAt
vars == <<l, delay, lastProbe, doneAt, cancelAt, sigint, injected, printed, returnedAt>>
Ev == Trace[l]
Is(e) == l <= Len(Trace) /\ Ev.ev = e /\ l' = l + 1
Init == l = 1 /\ delay = 0 /\ lastProbe = -1 /\ doneAt = -1 /\ cancelAt = -1 /\ sigint = FALSE /\ injected = {} /\ printed = {} /\ returnedAt = 0
Reset == /\ Is("Reset") /\ (returnedAt # -1)
         /\ delay' = Ev.delayUs /\ lastProbe' = -1 /\ doneAt' = -1 /\ cancelAt' = -1 /\ sigint' = FALSE
         /\ injected' = {} /\ printed' = {} /\ returnedAt' = -1
LastProbe == /\ Is("LastProbe") /\ lastProbe' = Ev.t
             /\ UNCHANGED <<delay, doneAt, cancelAt, sigint, injected, printed, returnedAt>>
\* completion is signalled after the last probe has left (or after Ctrl-C)
DoneSeen == /\ Is("DoneSeen") /\ (lastProbe # -1 \/ sigint) /\ doneAt' = Ev.t
            /\ UNCHANGED <<delay, lastProbe, cancelAt, sigint, injected, printed, returnedAt>>
Inject == /\ Is("Inject") /\ injected' = injected \cup {<<Ev.k, Ev.frac1000>>}
          /\ UNCHANGED <<delay, lastProbe, doneAt, cancelAt, sigint, printed, returnedAt>>
Line == /\ Is("Line") /\ (\E x \in injected : x[1] = Ev.k) /\ Ev.k \notin printed /\ returnedAt = -1
        /\ printed' = printed \cup {Ev.k}
        /\ UNCHANGED <<delay, lastProbe, doneAt, cancelAt, sigint, injected, returnedAt>>
\* NoEarlyCancel: the scan keeps listening for the configured exit delay after the last probe has left
CtxCancelled == /\ Is("CtxCancelled")
                /\ (sigint \/ (lastProbe # -1 /\ Ev.t >= lastProbe + delay))
                /\ cancelAt' = Ev.t
                /\ UNCHANGED <<delay, lastProbe, doneAt, sigint, injected, printed, returnedAt>>
SigInt == /\ Is("Cancel") /\ sigint' = TRUE
          /\ UNCHANGED <<delay, lastProbe, doneAt, cancelAt, injected, printed, returnedAt>>
\* (the watcher that logs CtxCancelled runs in its own goroutine and may log after Returned; its clause is checked wherever it appears)
\* the program does not exit before the delay is over, exits within bounded time after it,
\* and every reply that arrived in time has been printed (checked for delays >= 600 ms: 300 ms of slack for the result path)
Returned == /\ Is("Returned") /\ returnedAt = -1
            /\ (~sigint => (doneAt # -1 /\ lastProbe # -1 /\ Ev.t >= lastProbe + delay))        \* NoEarlyExit
            /\ (cancelAt # -1 => Ev.t <= cancelAt + Bound)                                       \* ExitsAfterDelay
            /\ ((~sigint /\ doneAt # -1) => Ev.t <= doneAt + delay + Bound)                       \* ... counted from the end of the delay, whatever else happens meanwhile
            /\ ((~sigint /\ delay >= 600000) => \A x \in injected : x[2] <= SafeFrac1000 => x[1] \in printed)
            /\ returnedAt' = Ev.t
            /\ UNCHANGED <<delay, lastProbe, doneAt, cancelAt, sigint, injected, printed>>
Next == Reset \/ LastProbe \/ DoneSeen \/ Inject \/ Line \/ CtxCancelled \/ SigInt \/ Returned
TSpec == Init /\ [][Next]_vars
HighWater == TLCSet(1, IF l > TLCGet(1) THEN l ELSE TLCGet(1))
ASSUME TLCSet(1, 0)
TraceAccepted == IF TLCGet(1) = Len(Trace) + 1 THEN PrintT(<<"TRACE ACCEPTED", Len(Trace)>>)
                 ELSE Print(<<"REJECTED at event", TLCGet(1), Trace[TLCGet(1)]>>, FALSE)
=============================================================================
