"""C08 — application scans: each target probed once, each outcome reported once.
Spec: AppScan.tla (goroutine/channel level: workers, two-stage result channel, logger, error drain, runner; TLC exhaustive;
refines AppScanObs), AppScanObs.tla + AppScanObsTrace.tla (validation of traces recorded from the real stack)."""
import os
import vf

LEVEL = "model_checking"
LEVEL_TEXT = ("TLC checks the goroutine-level model AppScan (request source, W workers, two-stage result channel, logger, error drain, "
              "runner with exit delay; every mix of hit/miss/fail/error-request, every interleaving, small constants) for ProbedAtMostOnce, "
              "NoDupLines, OnlyHitsPrinted, DoneAfterAll, Exact (under the named DelayLongEnough assumption; without it TLC must find "
              "the lost-result behaviour) and its refinement to AppScanObs. Executions of the real NewScanEngine + NewResultChan + "
              "NewRateLimitScanner + startScanEngine + JSON logger (1..1000 workers, up to 3700 requests, more hits than both 1000-slot "
              "buffers, more errors than the 100-slot buffer, scans that outlast the exit delay) are recorded at the seams and each "
              "trace must be a behaviour of AppScanObs (TLC trace validation).")
NOTE = ("Trusted: TLC; the recording seams (request generator, scanner, limiter, Logger.Error wrapper, io.Writer). 'printed before exit' is "
        "claimed under the statement's proviso: exit delay >= default, a writer that keeps up (<= 50 us/line), no Ctrl-C.")
TECHNIQUE = "TLA+ model checking (TLC) with refinement + trace validation of the real engine/result channel/runner/logger"
DESIGN_REF = "DESIGN.md section 5, C08"


def app_traces(ctx, free, big, cancel, procs, label):
    binary = ctx.go_build_test("./command")
    envs = []
    for k in range(procs):
        envs.append({"VF_OUT": os.path.join(ctx.scratch, "%s-%d.ndjson" % (label, k)), "VF_FREE_RUNS": free, "VF_BIG_RUNS": big,
                     "VF_CANCEL_RUNS": cancel, "VERIF_SEED": ctx.seed * 1000 + k})
    res = vf.go_run_many(ctx, binary, "^TestVfAppScan$", envs, timeout=2400)
    events = []
    for (rc, out), e in zip(res, envs):
        if os.path.exists(e["VF_OUT"]):
            events += vf.read_ndjson(e["VF_OUT"])
        events += vf.crash_events(ctx, rc, out, label)
    trace = os.path.join(ctx.scratch, label + "-all.ndjson")
    vf.write_ndjson(trace, events)
    return trace


def keyfn(run, evt):
    return "app:%s:%s" % (evt.get("ev"), evt.get("what", ""))


def run(ctx):
    if ctx.replay:
        return vf.replay_trace(ctx, ctx.replay)
    quick = ctx.tier == "quick"
    ctx.cov["rule"] = ("model: all interleavings for the stated constants and every kind assignment; runs: seeded random configurations "
                       "(requests 1..3700, workers 1..1000, hit/fail/error-request mixes, latencies 0..450 ms, limiter on/off, result "
                       "capacity 1..1000); distinct = recorded runs")
    ctx.tlc_mc("AppScan", "MC_AppScan_R3W2", workers=8, timeout=600)
    ctx.tlc_mc("AppScan", "MC_AppScan_nodelay", workers=4, timeout=600, expect_violation="Exact")
    ctx.tlc_mc("AppScan", "MC_AppScan_nodelay_errs", workers=8, timeout=600)        # ... but every failure is logged, whatever the delay
    if not quick:
        ctx.tlc_mc("AppScan", "MC_AppScan_R4W2", workers=16, timeout=3000, xmx="16g")
        ctx.tlc_mc("AppScan", "MC_AppScan_R3W3", workers=16, timeout=3000, xmx="16g")
    trace = app_traces(ctx, free=30 if quick else 300, big=2 if quick else 9, cancel=0, procs=4 if quick else 8, label="c08")
    nruns, nev = vf.validate_runs(ctx, "AppScanObsTrace", trace, keyfn=keyfn, label="application scan free runs", timeout=3000)
    ctx.count(0, [("run", i) for i in range(nruns)])
    for r0 in vf.split_runs(vf.read_ndjson(trace))[:2]:
        ctx.sample(r0[:60])
    ctx.assumptions += ["DelayLongEnough: the run context is cancelled only when the logger is idle (what 'exit delay at its default or larger' buys); "
                        "runs with a slow writer or an exit delay below 300 ms are validated without the completeness clause",
                        "a scan call that has not returned 60 s after its exit delay is a hang"]
