"""C15 — rate limit: probes never leave faster than the configured rate.
Spec: RateLimit.tla (explicit-time model of Take -> send in front of the uber limiter contract; TLC exhaustive; the bound with b-1 must fail),
PacketScanObs / AppScanObs (Take charged exactly once per frame / probe, never on the read path), RateTrace.tla (measured start times)."""
import os
import vf
from checks import c07, c08
from checks import wire_tier as wt

LEVEL = "model_checking"
LEVEL_TEXT = ("TLC checks RateLimit for per-request 2..3 ticks, slack b 0..2, lateness 0..1, 6 probes, every timing: ChargedOnce and Spacing hold and the bound "
              "with b-1 fails (so b is exactly the limiter's slack). On the real code: (exact) the real rateLimitReadWriter / rateLimitScanner run with a "
              "counting limiter in the pipeline and application-scan harnesses - event order Take, Write/Scan is validated by TLC against the seam-level "
              "specifications (charged once per probe, before it, never on reads); (timed) the real go.uber.org/ratelimit limiter built from --rate strings "
              "by the command's own constructor paces 128 probes for 1..100 workers, incl. a stall of all workers followed by a burst of demand; TLC checks "
              "the spacing bound with b = 10 on the measured start times and that the string parses to the reference (N, W).")
NOTE = ("Trusted: TLC; monotonic clock; MaxLate = 60 ms + 10 % of the window's nominal duration absorbs scheduler lateness (a regression smaller than that is "
        "invisible). The limiter construction inside startPacketScanEngine (packet commands' --rate wiring) belongs to the socket-level tier.")
TECHNIQUE = "TLA+ model checking (TLC, explicit time) + trace validation of Take/Write order + TLC check of the spacing bound on measured times"
DESIGN_REF = "DESIGN.md section 5, C15"


def run(ctx):
    quick = ctx.tier == "quick"
    ctx.cov["rule"] = ("model: all timings for the stated constants; exact runs: pipeline / application runs with a counting limiter (about a third of the seeded "
                       "configurations); timed runs: 5 (quick) / 9 (thorough) rate strings x worker counts x {application, packet} path; distinct = runs")
    for cfg in ("MC_RateLimit_a", "MC_RateLimit_b", "MC_RateLimit_c"):
        ctx.tlc_mc("RateLimit", cfg, workers=8, timeout=900)
    ctx.tlc_mc("RateLimit", "MC_RateLimit_tight", workers=8, timeout=900, expect_violation="SpacingTight")
    # exact half: Take events in the seam traces
    t1 = c07.pipeline_traces(ctx, free=40 if quick else 400, big=0, cancel=0, procs=4, label="c15p")
    ev1 = [r for r in vf.split_runs(vf.read_ndjson(t1)) if r[0].get("limited")]
    p1 = os.path.join(ctx.scratch, "c15p-lim.ndjson")
    vf.write_ndjson(p1, [e for r in ev1 for e in r])
    n1, _ = vf.validate_runs(ctx, "PacketScanObsTrace", p1, keyfn=c07.keyfn, label="packet path with counting limiter", timeout=3000)
    t2 = c08.app_traces(ctx, free=30 if quick else 300, big=0, cancel=0, procs=4, label="c15a")
    ev2 = [r for r in vf.split_runs(vf.read_ndjson(t2)) if r[0].get("limited")]
    p2 = os.path.join(ctx.scratch, "c15a-lim.ndjson")
    vf.write_ndjson(p2, [e for r in ev2 for e in r])
    n2, _ = vf.validate_runs(ctx, "AppScanObsTrace", p2, keyfn=c08.keyfn, label="application path with counting limiter", timeout=3000)
    ctx.step("exact", packet_runs=n1, app_runs=n2, takes=sum(1 for r in ev1 + ev2 for e in r if e["ev"] == "Take"))
    if n1 == 0 or n2 == 0:
        raise vf.Inconclusive("no limited runs were generated")
    # timed half
    binary = ctx.go_build_test("./command")
    out = os.path.join(ctx.scratch, "c15-rate.ndjson")
    rc, o = ctx.go_run_test(binary, "^TestVfRate$", env={"VF_OUT": out, "VERIF_TIER": ctx.tier}, timeout=1200)
    if rc != 0:
        ce = vf.crash_events(ctx, rc, o, "rate")
        ctx.violation("C15:crash", "rate-limited run crashed: %s" % ce[1]["text"], replay={"output": o[-20000:]})
        return
    events = vf.read_ndjson(out)
    held = [e for e in events if e.get("stallUs", 0) > 10000]
    if held:
        ctx.notes.append("%d of %d timed runs were held up for more than 10 ms in each of three attempts (the harness's own sleeper overslept): "
                         "their spacing is not judged: %s" % (len(held), len(events), [(e["rate"], e["path"], e["stallUs"]) for e in held]))
    ctx.cov["traces_validated_against_impl"] += len(events)
    ctx.count(len(events), [("rate", e["rate"], e["path"], e["workers"]) for e in events])
    rest = events
    while rest:
        p = os.path.join(ctx.scratch, "c15-rest.ndjson")
        vf.write_ndjson(p, rest)
        ok, info = ctx.tlc_trace("RateTrace", p, timeout=1200)
        if ok:
            break
        bad = rest[info["index"] - 1]
        t = bad["times"]
        ctx.violation("C15:spacing:%s:%s" % (bad["path"], bad["rate"]), "--rate %s, %s path, %d workers: %d probes started at %s... us - faster than the bound "
                      "(k-1-10)*W/N allows, or not all probes were made, or the rate was parsed differently" % (bad["rate"], bad["path"], bad["workers"], len(t), t[:24]),
                      replay={"property": "C15", "trace_spec": "RateTrace", "run": [bad]})
        rest = rest[:info["index"] - 1] + rest[info["index"]:]
    for e in events[:2]:
        ctx.sample({k: (v if k != "times" else v[:20]) for k, v in e.items()})
    if events:
        vf.selftest_event(ctx, "RateTrace", dict(events[0], times=[0] * len(events[0]["times"]), stallUs=0), "all probes of an accepted run at the same instant")
    # socket-level tier: --rate wiring of the packet commands (limiter built in startPacketScanEngine), capture timestamps
    n3, rej = wt.run_wire(ctx, select=lambda s: "rate" in s["name"], label="c15w", focus="rate")
    wt.report(ctx, "C15", rej)
