//go:build verif

package log

// C14 harness: the real NewLogger(JSON()) / NewUniqueLogger with the real result types. A recording
// io.Writer keeps every Write call apart; each call is decoded by an independent strict RFC 8259
// decoder and canonicalised; the same canonicaliser is applied to the fields of the result that was
// put in. LoggerTrace.tla compares the two and decides order / de-duplication / completeness.

import (
	"context"
	"errors"
	"fmt"
	"math"
	"math/rand"
	"os"
	"sort"
	"strconv"
	"sync/atomic"
	"strings"
	"testing"
	"time"
	"unicode/utf8"

	"github.com/v-byte-cpu/sx/pkg/scan"
	"github.com/v-byte-cpu/sx/pkg/scan/arp"
	"github.com/v-byte-cpu/sx/pkg/scan/docker"
	"github.com/v-byte-cpu/sx/pkg/scan/elastic"
	"github.com/v-byte-cpu/sx/pkg/scan/icmp"
	"github.com/v-byte-cpu/sx/pkg/scan/socks5"
	"github.com/v-byte-cpu/sx/pkg/scan/tcp"
)

// ---------- independent strict JSON decoder (RFC 8259), strings as []rune ----------

type vfJ struct {
	b []byte
	i int
}

var errVfJSON = errors.New("not strict JSON")

func (p *vfJ) ws() {
	for p.i < len(p.b) && (p.b[p.i] == ' ' || p.b[p.i] == '\t' || p.b[p.i] == '\r' || p.b[p.i] == '\n') {
		p.i++
	}
}

type vfObj struct {
	keys []string
	vals []interface{}
}

func (p *vfJ) value() (interface{}, error) {
	p.ws()
	if p.i >= len(p.b) {
		return nil, errVfJSON
	}
	switch c := p.b[p.i]; {
	case c == '{':
		p.i++
		o := &vfObj{}
		p.ws()
		if p.i < len(p.b) && p.b[p.i] == '}' {
			p.i++
			return o, nil
		}
		for {
			p.ws()
			k, err := p.str()
			if err != nil {
				return nil, err
			}
			p.ws()
			if p.i >= len(p.b) || p.b[p.i] != ':' {
				return nil, errVfJSON
			}
			p.i++
			v, err := p.value()
			if err != nil {
				return nil, err
			}
			for _, kk := range o.keys {
				if kk == string(k) {
					return nil, errVfJSON // duplicate key
				}
			}
			o.keys = append(o.keys, string(k))
			o.vals = append(o.vals, v)
			p.ws()
			if p.i < len(p.b) && p.b[p.i] == ',' {
				p.i++
				continue
			}
			if p.i < len(p.b) && p.b[p.i] == '}' {
				p.i++
				return o, nil
			}
			return nil, errVfJSON
		}
	case c == '[':
		p.i++
		arr := []interface{}{}
		p.ws()
		if p.i < len(p.b) && p.b[p.i] == ']' {
			p.i++
			return arr, nil
		}
		for {
			v, err := p.value()
			if err != nil {
				return nil, err
			}
			arr = append(arr, v)
			p.ws()
			if p.i < len(p.b) && p.b[p.i] == ',' {
				p.i++
				continue
			}
			if p.i < len(p.b) && p.b[p.i] == ']' {
				p.i++
				return arr, nil
			}
			return nil, errVfJSON
		}
	case c == '"':
		return p.str()
	case c == 't' && strings.HasPrefix(string(p.b[p.i:]), "true"):
		p.i += 4
		return true, nil
	case c == 'f' && strings.HasPrefix(string(p.b[p.i:]), "false"):
		p.i += 5
		return false, nil
	case c == 'n' && strings.HasPrefix(string(p.b[p.i:]), "null"):
		p.i += 4
		return nil, nil
	case c == '-' || (c >= '0' && c <= '9'):
		st := p.i
		if p.b[p.i] == '-' {
			p.i++
		}
		if p.i >= len(p.b) {
			return nil, errVfJSON
		}
		if p.b[p.i] == '0' {
			p.i++
		} else if p.b[p.i] >= '1' && p.b[p.i] <= '9' {
			for p.i < len(p.b) && p.b[p.i] >= '0' && p.b[p.i] <= '9' {
				p.i++
			}
		} else {
			return nil, errVfJSON
		}
		if p.i < len(p.b) && p.b[p.i] == '.' {
			p.i++
			d := p.i
			for p.i < len(p.b) && p.b[p.i] >= '0' && p.b[p.i] <= '9' {
				p.i++
			}
			if p.i == d {
				return nil, errVfJSON
			}
		}
		if p.i < len(p.b) && (p.b[p.i] == 'e' || p.b[p.i] == 'E') {
			p.i++
			if p.i < len(p.b) && (p.b[p.i] == '+' || p.b[p.i] == '-') {
				p.i++
			}
			d := p.i
			for p.i < len(p.b) && p.b[p.i] >= '0' && p.b[p.i] <= '9' {
				p.i++
			}
			if p.i == d {
				return nil, errVfJSON
			}
		}
		f, err := strconv.ParseFloat(string(p.b[st:p.i]), 64)
		if err != nil {
			return nil, errVfJSON
		}
		return f, nil
	}
	return nil, errVfJSON
}

func (p *vfJ) hex4() (rune, error) {
	if p.i+4 > len(p.b) {
		return 0, errVfJSON
	}
	v, err := strconv.ParseUint(string(p.b[p.i:p.i+4]), 16, 32)
	if err != nil {
		return 0, errVfJSON
	}
	p.i += 4
	return rune(v), nil
}

func (p *vfJ) str() ([]rune, error) {
	if p.i >= len(p.b) || p.b[p.i] != '"' {
		return nil, errVfJSON
	}
	p.i++
	out := []rune{}
	for {
		if p.i >= len(p.b) {
			return nil, errVfJSON
		}
		c := p.b[p.i]
		switch {
		case c == '"':
			p.i++
			return out, nil
		case c < 0x20:
			return nil, errVfJSON // raw control character
		case c == '\\':
			p.i++
			if p.i >= len(p.b) {
				return nil, errVfJSON
			}
			e := p.b[p.i]
			p.i++
			switch e {
			case '"', '\\', '/':
				out = append(out, rune(e))
			case 'b':
				out = append(out, '\b')
			case 'f':
				out = append(out, '\f')
			case 'n':
				out = append(out, '\n')
			case 'r':
				out = append(out, '\r')
			case 't':
				out = append(out, '\t')
			case 'u':
				r, err := p.hex4()
				if err != nil {
					return nil, err
				}
				if r >= 0xD800 && r < 0xDC00 { // high surrogate: must be followed by a low one
					if p.i+2 <= len(p.b) && p.b[p.i] == '\\' && p.b[p.i+1] == 'u' {
						p.i += 2
						lo, err := p.hex4()
						if err != nil || lo < 0xDC00 || lo > 0xDFFF {
							return nil, errVfJSON
						}
						r = 0x10000 + (r-0xD800)<<10 + (lo - 0xDC00)
					} else {
						return nil, errVfJSON
					}
				} else if r >= 0xDC00 && r <= 0xDFFF {
					return nil, errVfJSON
				}
				out = append(out, r)
			default:
				return nil, errVfJSON
			}
		default:
			r, n := utf8.DecodeRune(p.b[p.i:])
			if r == utf8.RuneError && n == 1 {
				return nil, errVfJSON // invalid UTF-8 in the output
			}
			out = append(out, r)
			p.i += n
		}
	}
}

// vfDecodeLine: one Write call must be exactly one complete JSON object followed by '\n'
var vfLastErrPos int // where the strict decoder gave up on the last rejected line (diagnostics only)

func vfDecodeLine(b []byte) (*vfObj, bool) {
	vfLastErrPos = -1
	if len(b) == 0 || b[len(b)-1] != '\n' {
		return nil, false
	}
	p := &vfJ{b: b[:len(b)-1]}
	v, err := p.value()
	if err != nil {
		vfLastErrPos = p.i
		return nil, false
	}
	p.ws()
	if p.i != len(p.b) {
		return nil, false
	}
	o, ok := v.(*vfObj)
	if !ok || strings.ContainsAny(string(b[:len(b)-1]), "\n") {
		return nil, false
	}
	return o, true
}

// ---------- canonical form: a flat int sequence; long strings are summarised ----------

func vfCanonRunes(out []int, r []rune) []int {
	if len(r) <= 1500 {
		out = append(out, 1, len(r))
		for _, c := range r {
			out = append(out, int(c))
		}
		return out
	}
	sum := 0
	for _, c := range r {
		sum = (sum*31 + int(c)) % 1000003
	}
	out = append(out, 2, len(r), sum)
	for _, c := range r[:100] {
		out = append(out, int(c))
	}
	for _, c := range r[len(r)-100:] {
		out = append(out, int(c))
	}
	return out
}

func vfCanonNum(out []int, f float64) []int {
	if f == math.Trunc(f) && math.Abs(f) < 1e9 {
		return append(out, 3, int(f))
	}
	s := strconv.FormatFloat(f, 'g', -1, 64)
	out = append(out, 4, len(s))
	for _, c := range s {
		out = append(out, int(c))
	}
	return out
}

// vfCanon canonicalises a generic value: string ([]rune or string, invalid bytes as U+FFFD each), numbers, bools, nil,
// arrays, objects (keys sorted)
func vfCanon(out []int, v interface{}) []int {
	switch x := v.(type) {
	case nil:
		return append(out, 0)
	case []rune:
		return vfCanonRunes(out, x)
	case string:
		return vfCanonRunes(out, []rune(x))
	case bool:
		if x {
			return append(out, 5, 1)
		}
		return append(out, 5, 0)
	case float64:
		return vfCanonNum(out, x)
	case int:
		return vfCanonNum(out, float64(x))
	case []interface{}:
		out = append(out, 6, len(x))
		for _, e := range x {
			out = vfCanon(out, e)
		}
		return out
	case map[string]interface{}:
		o := &vfObj{}
		for k, e := range x {
			o.keys = append(o.keys, k)
			o.vals = append(o.vals, e)
		}
		return vfCanon(out, o)
	case *vfObj:
		idx := make([]int, len(x.keys))
		for i := range idx {
			idx[i] = i
		}
		ks := make([]string, len(x.keys))
		for i, k := range x.keys {
			ks[i] = string([]rune(k)) // invalid bytes in a key become U+FFFD, as in a value
		}
		sort.Slice(idx, func(a, b int) bool { return ks[idx[a]] < ks[idx[b]] })
		out = append(out, 7, len(idx))
		for _, i := range idx {
			out = vfCanonRunes(out, []rune(ks[i]))
			out = vfCanon(out, x.vals[i])
		}
		return out
	}
	panic(fmt.Sprintf("vfCanon: %T", v))
}

// ---------- what each result type promises to print (documented keys) ----------

func vfExpected(r scan.Result) (map[string]interface{}, bool) {
	switch x := r.(type) {
	case *arp.ScanResult:
		return map[string]interface{}{"ip": x.IP, "mac": x.MAC, "vendor": x.Vendor}, true
	case *tcp.ScanResult:
		m := map[string]interface{}{"scan": x.ScanType, "ip": x.IP, "port": int(x.Port)}
		if x.Flags != "" {
			m["flags"] = x.Flags
		}
		return m, true
	case *icmp.ScanResult:
		return map[string]interface{}{"scan": x.ScanType, "ip": x.IP, "ttl": int(x.TTL),
			"icmp": map[string]interface{}{"type": int(x.ICMP.Type), "code": int(x.ICMP.Code)}}, true
	case *socks5.ScanResult:
		m := map[string]interface{}{"scan": x.ScanType, "version": x.Version, "ip": x.IP, "port": int(x.Port)}
		if x.Auth {
			m["auth"] = true
		}
		return m, true
	case *elastic.ScanResult:
		var info, idx interface{}
		if x.Info != nil {
			info = x.Info
		}
		if x.Indexes != nil {
			idx = x.Indexes
		}
		return map[string]interface{}{"scan": x.ScanType, "proto": x.Proto, "host": x.Host, "info": info, "indexes": idx}, true
	case *docker.ScanResult:
		// the info / version sub-objects are the docker library's types: only a few of their fields are compared
		return map[string]interface{}{"scan": x.ScanType, "proto": x.Proto, "host": x.Host}, false
	}
	panic("unknown result type")
}

// ---------- recording writer ----------

type vfLogWriter struct {
	sink    *vfSink
	delayUS int
	stallMS int // the first write stalls this long
	n       int
	writes  atomic.Int64
	partial map[string]bool // result types compared on a subset of keys
}

func (w *vfLogWriter) Write(b []byte) (int, error) {
	defer w.writes.Add(1)
	w.n++
	if w.n == 1 && w.stallMS > 0 {
		time.Sleep(time.Duration(w.stallMS) * time.Millisecond)
	}
	if w.delayUS > 0 {
		time.Sleep(time.Duration(w.delayUS) * time.Microsecond)
	}
	o, ok := vfDecodeLine(b)
	if !ok {
		pre := b
		if len(pre) > 200 {
			pre = pre[:200]
		}
		around := ""
		if vfLastErrPos >= 0 {
			lo, hi := vfLastErrPos-80, vfLastErrPos+40
			if lo < 0 {
				lo = 0
			}
			if hi > len(b) {
				hi = len(b)
			}
			around = fmt.Sprintf("%q", b[lo:hi])
		}
		w.sink.log(map[string]interface{}{"ev": "Garbled", "text": fmt.Sprintf("%q", pre), "at": vfLastErrPos, "around": around})
		return len(b), nil
	}
	// docker: compare only scan / proto / host (plus the presence of info and version objects)
	if s, ok2 := vfField(o, "scan"); ok2 && string(s.([]rune)) == docker.ScanType {
		red := &vfObj{}
		for i, k := range o.keys {
			if k == "scan" || k == "proto" || k == "host" {
				red.keys = append(red.keys, k)
				red.vals = append(red.vals, o.vals[i])
			}
		}
		_, hi := vfField(o, "info")
		_, hv := vfField(o, "version")
		if !hi || !hv {
			red.keys = append(red.keys, "missing-info-or-version")
			red.vals = append(red.vals, true)
		}
		o = red
	}
	w.sink.log(map[string]interface{}{"ev": "Write", "c": vfCanon([]int{}, o)})
	return len(b), nil
}

func vfField(o *vfObj, k string) (interface{}, bool) {
	for i, kk := range o.keys {
		if kk == k {
			return o.vals[i], true
		}
	}
	return nil, false
}

// ---------- value generators ----------

var vfNasty = []string{
	"", "plain", `quote"inside`, `back\slash`, "tab\tnewline\nreturn\r", "\x00\x01\x02\x1f", "\x7f", "<script>&amp;</script>",
	" line sep", "héllo wörld ünïcode", "日本語テキスト", "emoji 😀 \U0001F600", "100% Sunny %s %d %v %!", "%", "%%", "%[1]n",
	"bad\xffutf8\xfe\xfd", "\xc3\x28", "\xe2\x82", "\xed\xa0\x80 surrogate", "a\xf0\x28\x8c\x28z", "{\"json\":\"inside\"}", "\\u0041", "'; DROP TABLE --",
	"logs-%{+yyyy.MM.dd}", "trailing\\", "\"", "\n", "a\nb", "null", "true", "0", "  spaces  ",
	// the text of every escape sequence a JSON encoder may itself produce, as literal characters (backslash, letter, digits)
	`\u0026`, `\u003c`, `\u003e`, `a\u0026b\u003cc\u003ed`, `\u2028\u2029`, `\ufffd`, `\n\t\r\b\f`, `\"`, `\\`, `\/`, `\u0000`, `&\u0026&`, `<\u003c>`, "&", "<", ">", "&<>",
}

var vfNastyNext int

func vfStr(rnd *rand.Rand) string {
	// every listed string is used at least once per process before the random choice starts
	if vfNastyNext < len(vfNasty) {
		vfNastyNext++
		return vfNasty[vfNastyNext-1]
	}
	switch rnd.Intn(12) {
	case 0:
		return strings.Repeat(vfNasty[rnd.Intn(len(vfNasty))], 1+rnd.Intn(40))
	case 1:
		n := 2000 + rnd.Intn(400000)
		var sb strings.Builder
		for sb.Len() < n {
			sb.WriteString(vfNasty[rnd.Intn(len(vfNasty))])
			sb.WriteByte(byte(32 + rnd.Intn(90)))
		}
		return sb.String()
	case 2:
		b := make([]byte, rnd.Intn(30))
		rnd.Read(b)
		return string(b)
	default:
		return vfNasty[rnd.Intn(len(vfNasty))]
	}
}

func vfServerMap(rnd *rand.Rand, depth int) map[string]interface{} {
	m := map[string]interface{}{}
	n := rnd.Intn(5)
	for i := 0; i < n; i++ {
		k := vfStr(rnd)
		if len(k) > 60 {
			k = k[:60]
		}
		// the maps of elastic results come out of encoding/json, whose object keys are valid UTF-8 (invalid bytes were replaced while
		// decoding): two different invalid keys would otherwise be printed as the same "\ufffd..." key
		k = strings.ToValidUTF8(k, "\uFFFD")
		switch rnd.Intn(7) {
		case 0:
			m[k] = vfStr(rnd)
		case 1:
			m[k] = float64(rnd.Intn(100000)) - 50000
		case 2:
			m[k] = rnd.Float64() * 1e6
		case 3:
			m[k] = rnd.Intn(2) == 0
		case 4:
			m[k] = nil
		case 5:
			if depth < 3 {
				m[k] = vfServerMap(rnd, depth+1)
			} else {
				m[k] = "deep"
			}
		default:
			arr := []interface{}{}
			for j := rnd.Intn(4); j > 0; j-- {
				arr = append(arr, vfStr(rnd))
			}
			m[k] = arr
		}
	}
	return m
}

func vfResult(rnd *rand.Rand, kind int, host int) scan.Result {
	ip := fmt.Sprintf("10.1.%d.%d", host/256, host%256)
	switch kind {
	case 0:
		return &arp.ScanResult{IP: ip, MAC: vfStr(rnd), Vendor: vfStr(rnd)}
	case 1:
		return &tcp.ScanResult{ScanType: []string{"tcpsyn", "tcpflags", vfStr(rnd)}[rnd.Intn(3)], IP: ip, Port: uint16(rnd.Intn(65536)), Flags: []string{"", "sa", "safrpuecn", vfStr(rnd)}[rnd.Intn(4)]}
	case 2:
		return &icmp.ScanResult{ScanType: []string{"icmp", "udp"}[rnd.Intn(2)], IP: ip, TTL: uint8(rnd.Intn(256)), ICMP: &icmp.Response{Type: uint8(rnd.Intn(256)), Code: uint8(rnd.Intn(256))}}
	case 3:
		return &socks5.ScanResult{ScanType: "socks", Version: 5, IP: ip, Port: uint16(rnd.Intn(65536)), Auth: rnd.Intn(2) == 0}
	case 4:
		r := &elastic.ScanResult{ScanType: "elastic", Proto: []string{"http", "https"}[rnd.Intn(2)], Host: ip + ":9200", Info: vfServerMap(rnd, 0)}
		if rnd.Intn(3) > 0 {
			r.Indexes = vfServerMap(rnd, 1)
		}
		return r
	default:
		r := &docker.ScanResult{ScanType: "docker", Proto: "http", Host: "tcp://" + ip + ":2375"}
		r.Info.Name = vfStr(rnd)
		r.Info.OperatingSystem = vfStr(rnd)
		r.Version.Version = vfStr(rnd)
		return r
	}
}

// vfIDResult wraps a result to control its ID (host identity for de-duplication) independently of the printed fields
type vfLogCfg struct {
	N       int
	Unique  bool
	Hosts   int // number of distinct hosts (IDs); results repeat them
	Cap     int // capacity of the input channel (the unique logger's forwarding channel has the same)
	WriteUS int
	StallMS int
	Cancel  int // cancel after this many results were put (0: never; close the channel instead)
	Kinds   []int
	Chan    bool // the results travel through the real scan.ResultChan (two buffered stages) as in every command
}

func vfRunLogger(cfg vfLogCfg, seed int64) []map[string]interface{} {
	rnd := rand.New(rand.NewSource(seed))
	sink := &vfSink{}
	sink.log(map[string]interface{}{"ev": "Reset", "unique": cfg.Unique})
	w := &vfLogWriter{sink: sink, delayUS: cfg.WriteUS, stallMS: cfg.StallMS}
	var lg Logger
	inner, err := NewLogger(w, "vf", JSON())
	if err != nil {
		panic(err)
	}
	lg = inner
	if cfg.Unique {
		lg = NewUniqueLogger(inner)
	}
	ctx, cancel := context.WithCancel(context.Background())
	defer cancel()
	in := make(chan scan.Result, cfg.Cap)
	var rc scan.ResultChan
	var src <-chan scan.Result = in
	if cfg.Chan {
		rc = scan.NewResultChan(ctx, 1000)
		src = rc.Chan()
	}
	ret := make(chan struct{})
	go func() {
		lg.LogResults(ctx, src)
		sink.log(map[string]interface{}{"ev": "Returned"})
		close(ret)
	}()
	for k := 1; k <= cfg.N; k++ {
		host := rnd.Intn(cfg.Hosts)
		res := vfResult(rnd, cfg.Kinds[rnd.Intn(len(cfg.Kinds))], host)
		exp, _ := vfExpected(res)
		sink.log(map[string]interface{}{"ev": "Put", "k": k, "id": res.ID(), "c": vfCanon([]int{}, exp)})
		sent := false
		if cfg.Chan {
			putDone := make(chan struct{})
			go func() { rc.Put(res); close(putDone) }()
			select {
			case <-putDone:
				sent = true
			case <-time.After(20 * time.Second):
			}
		} else {
			select {
			case in <- res:
				sent = true
			case <-time.After(20 * time.Second):
			}
		}
		if !sent {
			sink.log(map[string]interface{}{"ev": "Hang", "what": "logger stopped consuming"})
			return sink.seal()
		}
		if cfg.Cancel > 0 && k == cfg.Cancel {
			sink.mu.Lock()
			sink.logLocked(map[string]interface{}{"ev": "Cancel"})
			cancel()
			sink.mu.Unlock()
			break
		}
	}
	if cfg.Cancel == 0 && cfg.Chan {
		// the result channel has no end of its own: wait until everything that was put has been written, then cancel as the runner does
		want := int64(cfg.N)
		if cfg.Unique {
			want = -1
		}
		deadline := time.Now().Add(20 * time.Second)
		last, lastAt := int64(-1), time.Now()
		for time.Now().Before(deadline) {
			n := w.writes.Load()
			if n == want {
				break
			}
			if n != last {
				last, lastAt = n, time.Now()
			} else if want < 0 && time.Since(lastAt) > time.Duration(cfg.StallMS+400)*time.Millisecond {
				break
			}
			time.Sleep(2 * time.Millisecond)
		}
		if want >= 0 && w.writes.Load() != want {
			sink.log(map[string]interface{}{"ev": "Hang", "what": fmt.Sprintf("%d of %d results written 20 s after the last Put", w.writes.Load(), want)})
		}
		sink.mu.Lock()
		sink.logLocked(map[string]interface{}{"ev": "Cancel"})
		cancel()
		sink.mu.Unlock()
	} else if cfg.Cancel == 0 {
		sink.log(map[string]interface{}{"ev": "CloseIn"})
		close(in)
	}
	select {
	case <-ret:
	case <-time.After(time.Duration(cfg.N*cfg.WriteUS)*time.Microsecond + time.Duration(cfg.StallMS)*time.Millisecond + 20*time.Second):
		sink.log(map[string]interface{}{"ev": "Hang", "what": "LogResults did not return"})
	}
	return sink.seal()
}

func TestVfLogger(t *testing.T) {
	out := vfOpenOut(t, "VF_OUT")
	defer out.close()
	seed, _ := strconv.ParseInt(os.Getenv("VERIF_SEED"), 10, 64)
	nruns, _ := strconv.Atoi(os.Getenv("VF_RUNS"))
	rnd := rand.New(rand.NewSource(seed*86028121 + 7))
	all := []int{0, 1, 2, 3, 4, 5}
	runs := 0
	for k := 0; k < nruns; k++ {
		c := vfLogCfg{N: 1 + rnd.Intn(60), Hosts: 1 + rnd.Intn(12), Cap: []int{0, 1, 2, 1000}[rnd.Intn(4)], Kinds: all, Unique: k%2 == 1}
		if c.Unique {
			c.Kinds = []int{0} // live ARP
			if k%4 == 3 {
				c.Kinds = all
			}
		}
		switch rnd.Intn(5) {
		case 0:
			c.WriteUS = 200
		case 1:
			c.Cancel = 1 + rnd.Intn(c.N)
		case 2:
			// a stalled writer while more new hosts arrive than the forwarding channel holds
			c.StallMS = 150
			c.Cap = 2
			c.Hosts = 40
			c.N = 30 + rnd.Intn(30)
		}
		out.write(vfRunLogger(c, seed+int64(runs)))
		runs++
	}
	// through the real result channel: small histories, and more results than both of its stages hold behind a stalled writer
	nvol, _ := strconv.Atoi(os.Getenv("VF_VOLUME"))
	for k := 0; k < 4+nvol; k++ {
		c := vfLogCfg{N: 1 + rnd.Intn(60), Hosts: 1 + rnd.Intn(12), Kinds: all, Unique: k%2 == 1, Chan: true}
		if k >= 4 {
			c = vfLogCfg{N: 2600 + rnd.Intn(800), Hosts: 5000, Kinds: []int{2}, Unique: k%2 == 1, Chan: true, StallMS: 300}
		}
		out.write(vfRunLogger(c, seed+int64(runs)))
		runs++
	}
	fmt.Printf("VF_RUNS=%d VF_EVENTS=%d\n", runs, out.n)
}
