SPECIFICATION TSpec
CONSTANTS MaxIf = 3 MaxAddr = 3 Emit = FALSE
CONSTRAINT HighWater
POSTCONDITION TraceAccepted
CHECK_DEADLOCK FALSE
