INIT Init
NEXT Next
