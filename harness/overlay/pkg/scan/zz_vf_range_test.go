//go:build verif

package scan

// C04 harness: the real newRangeIterator / Next with known random draws. It records what the
// iterator chose and produced; RangeIterTrace.tla recomputes the walk and decides.

import (
	"fmt"
	"math"
	"math/big"
	"math/rand"
	"os"
	"reflect"
	"strconv"
	"testing"
)

func vfLimbs(v *big.Int) []int {
	if v.Sign() < 0 {
		return []int{-1, 0} // not a natural: WellFormed fails in the specification
	}
	hi := new(big.Int).Rsh(v, 16)
	lo := new(big.Int).And(v, big.NewInt(0xffff))
	return []int{int(hi.Int64()), int(lo.Int64())}
}

// vfBigOf reads an integer whatever its representation (*big.Int, big.Int, any sized int / uint)
func vfBigOf(v reflect.Value) *big.Int {
	if !v.IsValid() {
		return big.NewInt(-1)
	}
	switch v.Kind() {
	case reflect.Int, reflect.Int8, reflect.Int16, reflect.Int32, reflect.Int64:
		return big.NewInt(v.Int())
	case reflect.Uint, reflect.Uint8, reflect.Uint16, reflect.Uint32, reflect.Uint64:
		return new(big.Int).SetUint64(v.Uint())
	case reflect.Ptr, reflect.Interface:
		if v.IsNil() {
			return big.NewInt(-1)
		}
		if v.CanInterface() {
			if b, ok := v.Interface().(*big.Int); ok {
				return new(big.Int).Set(b)
			}
		} else if v.Type() == reflect.TypeOf((*big.Int)(nil)) {
			return new(big.Int).Set((*big.Int)(v.UnsafePointer()))
		}
		return vfBigOf(v.Elem())
	case reflect.Struct:
		if v.Type() == reflect.TypeOf(big.Int{}) && v.CanAddr() {
			return new(big.Int).Set((*big.Int)(v.Addr().UnsafePointer()))
		}
	}
	return big.NewInt(-1)
}

func vfBigField(it interface{}, name string) *big.Int {
	v := reflect.ValueOf(it)
	for v.Kind() == reflect.Ptr {
		v = v.Elem()
	}
	return vfBigOf(v.FieldByName(name))
}

func vfBitsOf(v *big.Int) []int {
	out := []int{}
	for i := v.BitLen() - 1; i >= 0; i-- {
		out = append(out, int(v.Bit(i)))
	}
	return out
}

func vfRangeIterEvent(n int64, seed int64, keep int, summaryLimit int64) map[string]interface{} {
	rand.Seed(seed)
	d1, d2 := rand.Int63(), rand.Int63()
	rand.Seed(seed)
	it, err := newRangeIterator(n)
	one := big.NewInt(1)
	r1 := new(big.Int).Add(big.NewInt(d1), one)
	r2 := new(big.Int).Add(big.NewInt(d2), one)
	ev := map[string]interface{}{"ev": "Iter", "seed": int(seed), "r1": vfBitsOf(r1), "r2": vfBitsOf(r2), "negative": n < 0,
		"rejected": err != nil, "complete": false, "hasSummary": false, "outs": [][]int{}, "nstr": strconv.FormatInt(n, 10)}
	if n < 0 {
		ev["n"] = []int{0, 0}
	} else {
		ev["n"] = vfLimbs(big.NewInt(n))
	}
	zero := []int{0, 0}
	ev["P"], ev["G"], ev["count"], ev["distinct"], ev["min"], ev["max"] = zero, zero, zero, zero, zero, zero
	if err != nil {
		return ev
	}
	ev["P"], ev["G"] = vfLimbs(vfBigField(it, "P")), vfLimbs(vfBigField(it, "G"))
	intM, nextM := reflect.ValueOf(it).MethodByName("Int"), reflect.ValueOf(it).MethodByName("Next")
	outs := [][]int{}
	full := n <= summaryLimit
	var seen []uint64
	if full {
		seen = make([]uint64, n/64+2)
	}
	var count, distinct int64
	min, max := int64(math.MaxInt64), int64(0)
	for {
		v := vfBigOf(intM.Call(nil)[0])
		if len(outs) < keep {
			outs = append(outs, vfLimbs(v))
		}
		if full {
			count++
			if v.IsInt64() && v.Int64() >= 0 && v.Int64() <= n+1 {
				x := v.Int64()
				if seen[x/64]&(1<<uint(x%64)) == 0 {
					seen[x/64] |= 1 << uint(x%64)
					distinct++
				}
				if x < min {
					min = x
				}
				if x > max {
					max = x
				}
			} else {
				min = -1 // out of range value: makes the summary fail
			}
			if count > n+2 {
				break // does not stop: the summary shows count > n
			}
		} else if len(outs) >= keep {
			break
		}
		if !nextM.Call(nil)[0].Bool() {
			if !full {
				ev["complete"] = true
			}
			break
		}
	}
	ev["outs"] = outs
	if full {
		ev["complete"] = int64(len(outs)) == count
		ev["hasSummary"] = true
		if min < 0 {
			min = 0
		}
		ev["count"], ev["distinct"] = vfLimbs(big.NewInt(count)), vfLimbs(big.NewInt(distinct))
		ev["min"], ev["max"] = vfLimbs(big.NewInt(min)), vfLimbs(big.NewInt(max))
	}
	return ev
}

func TestVfRangeIter(t *testing.T) {
	out := vfOpenOut(t, "VF_OUT")
	defer out.close()
	seed, _ := strconv.ParseInt(os.Getenv("VERIF_SEED"), 10, 64)
	thorough := os.Getenv("VERIF_TIER") == "thorough"
	rows := [][][]int{}
	// the table is read by reflection: the representation (field types, an exponent column or none) is the code's business
	var rowP []int64
	tbl := reflect.ValueOf(cyclicGroups)
	for i := 0; i < tbl.Len(); i++ {
		g := tbl.Index(i)
		if g.Kind() == reflect.Ptr {
			g = g.Elem()
		}
		pp, gg := vfBigOf(g.FieldByName("P")), vfBigOf(g.FieldByName("G"))
		nn := big.NewInt(1) // no exponent column: the generator is used as it is (exponent 1); the walk is judged on the iterator's own G
		if f := g.FieldByName("N"); f.IsValid() {
			nn = vfBigOf(f)
		}
		rows = append(rows, [][]int{vfLimbs(pp), vfLimbs(gg), vfLimbs(nn)})
		rowP = append(rowP, pp.Int64())
	}
	out.write([]map[string]interface{}{{"ev": "Table", "rows": rows}})
	rnd := rand.New(rand.NewSource(seed*6700417 + 1))
	n := 0
	emit := func(sz int64, sd int64, keep int, lim int64) {
		out.write([]map[string]interface{}{vfRangeIterEvent(sz, sd, keep, lim)})
		n++
	}
	// (i) complete sequences for small sizes, several draws each
	for sz := int64(1); sz <= 260; sz++ {
		for k := 0; k < 4; k++ {
			emit(sz, seed*100+int64(k)+sz*7, 1<<20, 6000)
		}
	}
	extra := 60
	if thorough {
		extra = 1500
	}
	for k := 0; k < extra; k++ {
		emit(261+rnd.Int63n(5000-261), seed*1000+int64(k), 1<<20, 6000)
	}
	// (ii) every row boundary, the bad sizes, the top of the table: chosen row, randomised generator, start, first outputs
	keep := 60
	for _, gP := range rowP {
		for _, d := range []int64{-2, -1, 0, 1} {
			for k := 0; k < 3; k++ {
				emit(gP+d, seed*10+int64(k), keep, 6000)
			}
		}
	}
	for _, sz := range []int64{0, -1, math.MinInt64, 1 << 40, 1<<32 + 60, 1<<32 + 61, 1 << 32, 1<<32 + 30, 1<<31 + 11, 1<<31 + 12, 3 << 30, 1 << 31, 1<<32 - 1} {
		for k := 0; k < 6; k++ {
			emit(sz, seed*17+int64(k), keep, 6000)
		}
	}
	for k := 0; k < 40; k++ {
		emit(1+rnd.Int63n(1<<32+60), seed*31+int64(k), keep, 6000)
	}
	// (iii) complete walks projected to counts, groups above 2^16 (never executed by the repository's tests)
	sizes := []int64{1<<16 + 1, 100000, 1 << 17, 1<<18 + 12345, 1 << 20}
	if thorough {
		sizes = append(sizes, 1<<21+7, 1<<22, 1<<23+99, 1<<24)
	}
	for i, sz := range sizes {
		emit(sz, seed*5+int64(i), keep, 1<<25)
	}
	fmt.Printf("VF_ITERS=%d\n", n)
}
