SPECIFICATION Spec
CONSTANTS Addr = {1, 2} Interval = 2 MaxPass = 3 MaxT = 9 FailOn = {}
INVARIANTS PassExact RescanGap NoOutputAfterFailure
PROPERTIES CancelEnds
CHECK_DEADLOCK FALSE
