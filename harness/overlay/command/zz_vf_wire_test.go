//go:build verif && linux

package command

// Socket-level tier ("virtual wire"): runs inside a private network namespace (unshare -n). The real sx binary
// (built from the working tree; path in VF_SX) is started as a child on one end of a veth pair; this harness owns
// the other end: it captures every frame sx emits with a monotonic timestamp (raw AF_PACKET socket, stdlib only),
// injects scripted frames after the first probe of a scan (or chunk) was seen, feeds stdin, sends SIGINT at scripted
// moments and collects stdout / stderr / exit status / times. It records; WireRunTrace.tla decides.

import (
	"bufio"
	"bytes"
	"encoding/binary"
	"encoding/json"
	"fmt"
	"io"
	"net"
	"os"
	"os/exec"
	"sort"
	"strconv"
	"strings"
	"sync"
	"sync/atomic"
	"syscall"
	"testing"
	"time"
	"unsafe"
)

func vfHtons(v uint16) uint16 { return v<<8 | v>>8 }

type vfCap struct {
	fd      int
	ifindex int
	t0      time.Time
	mu      sync.Mutex
	frames  []vfFrame
	stop    chan struct{}
	done    chan struct{}
	invert  bool // the socket is bound to sx's own interface (tun): what sx sends is PACKET_OUTGOING there
}

type vfFrame struct {
	T     int // microseconds since t0
	Out   bool // sent by this harness (PACKET_OUTGOING)
	Bytes []byte
}

func vfOpenCap(ifname string) (*vfCap, error) {
	fd, err := syscall.Socket(syscall.AF_PACKET, syscall.SOCK_RAW, int(vfHtons(syscall.ETH_P_ALL)))
	if err != nil {
		return nil, err
	}
	ifi, err := net.InterfaceByName(ifname)
	if err != nil {
		return nil, err
	}
	// a large receive buffer: bursts of back-to-back probes must not be dropped
	_ = syscall.SetsockoptInt(fd, syscall.SOL_SOCKET, 33 /* SO_RCVBUFFORCE */, 64<<20)
	if err := syscall.Bind(fd, &syscall.SockaddrLinklayer{Protocol: vfHtons(syscall.ETH_P_ALL), Ifindex: ifi.Index}); err != nil {
		return nil, err
	}
	tv := syscall.Timeval{Usec: 20000}
	_ = syscall.SetsockoptTimeval(fd, syscall.SOL_SOCKET, syscall.SO_RCVTIMEO, &tv)
	// capture times are the kernel's receive timestamps: they do not depend on when this process gets to read the frame
	_ = syscall.SetsockoptInt(fd, syscall.SOL_SOCKET, 35 /* SO_TIMESTAMPNS */, 1)
	c := &vfCap{fd: fd, ifindex: ifi.Index, t0: time.Now(), stop: make(chan struct{}), done: make(chan struct{})}
	go c.loop()
	return c, nil
}

func (c *vfCap) loop() {
	defer close(c.done)
	buf := make([]byte, 65536)
	oob := make([]byte, 256)
	for {
		select {
		case <-c.stop:
			return
		default:
		}
		n, oobn, _, from, err := syscall.Recvmsg(c.fd, buf, oob, 0)
		if err != nil || n <= 0 {
			continue
		}
		c.mu.Lock()
		t0 := c.t0
		c.mu.Unlock()
		at := time.Since(t0)
		if msgs, err := syscall.ParseSocketControlMessage(oob[:oobn]); err == nil {
			for _, m := range msgs {
				if m.Header.Level == syscall.SOL_SOCKET && m.Header.Type == 35 && len(m.Data) >= 16 { // SCM_TIMESTAMPNS: struct timespec
					sec := int64(binary.LittleEndian.Uint64(m.Data[0:8]))
					nsec := int64(binary.LittleEndian.Uint64(m.Data[8:16]))
					at = time.Unix(sec, nsec).Sub(t0.Round(0)) // wall-clock difference (Round(0) strips the monotonic reading)
				}
			}
		}
		out := false
		if ll, ok := from.(*syscall.SockaddrLinklayer); ok && (ll.Pkttype == 4) != c.invert {
			out = true
		}
		b := make([]byte, n)
		copy(b, buf[:n])
		c.mu.Lock()
		c.frames = append(c.frames, vfFrame{T: int(at / time.Microsecond), Out: out, Bytes: b})
		c.mu.Unlock()
	}
}

func (c *vfCap) reset(t0 time.Time) {
	c.mu.Lock()
	c.frames, c.t0 = nil, t0
	c.mu.Unlock()
}

func (c *vfCap) inject(frame []byte) error {
	return syscall.Sendto(c.fd, frame, 0, &syscall.SockaddrLinklayer{Ifindex: c.ifindex, Halen: 6, Protocol: vfHtons(syscall.ETH_P_ALL)})
}

func (c *vfCap) snapshot() []vfFrame {
	c.mu.Lock()
	defer c.mu.Unlock()
	return append([]vfFrame{}, c.frames...)
}

func (c *vfCap) drops() int {
	// PACKET_STATISTICS: tp_packets, tp_drops
	var st [2]uint32
	l := uint32(8)
	_, _, e := syscall.Syscall6(syscall.SYS_GETSOCKOPT, uintptr(c.fd), 263 /* SOL_PACKET */, 6 /* PACKET_STATISTICS */, uintptr(unsafe.Pointer(&st)), uintptr(unsafe.Pointer(&l)), 0)
	if e != 0 {
		return -1
	}
	return int(st[1])
}

func (c *vfCap) close() {
	close(c.stop)
	<-c.done
	syscall.Close(c.fd)
}

// vfTun: a tun device (no hardware address: sx selects raw-IP "VPN" mode on it). Packets sx sends are read from the tun fd,
// packets written to it arrive on the interface.
type vfTun struct {
	f      *os.File
	mu     sync.Mutex
	frames []vfFrame
	t0     time.Time
}

func vfOpenTun(name string) (*vfTun, error) {
	// the descriptor is handed to the runtime poller only after TUNSETIFF: registered earlier it never becomes readable
	fd, err := syscall.Open("/dev/net/tun", syscall.O_RDWR|syscall.O_CLOEXEC, 0)
	if err != nil {
		return nil, err
	}
	var req [40]byte
	copy(req[:15], name)
	binary.LittleEndian.PutUint16(req[16:], 0x0001|0x1000) // IFF_TUN | IFF_NO_PI
	if _, _, e := syscall.Syscall(syscall.SYS_IOCTL, uintptr(fd), uintptr(0x400454ca), uintptr(unsafe.Pointer(&req[0]))); e != 0 {
		return nil, e
	}
	if err := syscall.SetNonblock(fd, true); err != nil {
		return nil, err
	}
	f := os.NewFile(uintptr(fd), "/dev/net/tun")
	t := &vfTun{f: f, t0: time.Now()}
	go func() {
		buf := make([]byte, 65536)
		for {
			n, err := f.Read(buf)
			if err != nil {
				return
			}
			b := make([]byte, n)
			copy(b, buf[:n])
			t.mu.Lock()
			t.frames = append(t.frames, vfFrame{T: int(time.Since(t.t0) / time.Microsecond), Bytes: b})
			t.mu.Unlock()
		}
	}()
	return t, nil
}

func (t *vfTun) reset(t0 time.Time) {
	t.mu.Lock()
	t.frames, t.t0 = nil, t0
	t.mu.Unlock()
}
func (t *vfTun) inject(b []byte) error { _, err := t.f.Write(b); return err }
func (t *vfTun) snapshot() []vfFrame {
	t.mu.Lock()
	defer t.mu.Unlock()
	return append([]vfFrame{}, t.frames...)
}

type vfWireInject struct {
	Bytes      []int `json:"bytes"`
	AfterProbe int   `json:"afterProbe"` // inject once this many probes were seen ...
	DelayMS    int   `json:"delayMs"`    // ... plus this long
	AfterLast  bool  `json:"afterLast"`  // count from the moment the expected number of probes (of the chunk) was complete
}

type vfWireScen struct {
	ID          int            `json:"id"`
	Name        string         `json:"name"`
	Args        []string       `json:"args"`
	Stdin       string         `json:"stdin"`
	Files       map[string]string `json:"files"` // name -> content, created in the scratch dir; "{dir}" in args is replaced
	Inject      []vfWireInject `json:"inject"`
	SigintAfter int            `json:"sigintAfter"` // send SIGINT after this many probes (0: never)
	MaxMS       int            `json:"maxMs"`
	Listen      []int          `json:"listen"` // loopback ports with an accepting TCP server (application scans)
	Flood       []int          `json:"flood"`  // a frame injected continuously from before the start of sx until its first probe is seen
	FloodAll    bool           `json:"floodAll"` // ... until sx exits
	Dev         string         `json:"dev"`    // "tun": the wire is the tun device vft0 (raw-IP mode) instead of the veth
	Servers     map[string]string `json:"servers"` // port -> behaviour of an accepting loopback server: socks | json | stall | redirect:<url>
	Env         []string       `json:"env"`     // extra environment of the sx process
	Routes      [][]string     `json:"routes"`  // `ip route add ...` before the run, deleted afterwards
	SigintConnMS int           `json:"sigintConnMs"` // send SIGINT this long after the first connection reached a server (0: never)
	StdinFile   bool           `json:"stdinFile"`   // standard input is a regular file with the content of Stdin (not a pipe)
	StdoutTo    string         `json:"stdoutTo"`    // standard output is this file (e.g. /dev/full); nothing is read back
	SlowStdout  bool           `json:"slowStdout"`  // standard output is a pipe whose reader takes 2 KB every 2 ms
	FlapAfter   int            `json:"flapAfter"`   // after this many probes the interface of sx goes down ...
	FlapDownMS  int            `json:"flapDownMs"`  // ... for this long, then up again
	UlimitN     int            `json:"ulimitN"`     // soft limit on open file descriptors of the sx process (0: inherited)
}

func vfIsProbe(b []byte, myMAC net.HardwareAddr) bool {
	// a frame sent by sx: source MAC is the sx side of the veth (or the --srcmac of the scenario: both start with 02:5x)
	return len(b) >= 14 && (bytes.Equal(b[6:12], myMAC) || (b[6] == 0x02 && b[7] == 0x5f))
}

func TestVfWire(t *testing.T) {
	out := vfOpenOut(t, "VF_OUT")
	defer out.close()
	sx := os.Getenv("VF_SX")
	if sx == "" {
		t.Fatal("VF_SX not set")
	}
	if _, err := net.InterfaceByName("eth0"); err == nil {
		t.Fatal("not in a private network namespace")
	}
	dir := t.TempDir()
	_ = os.WriteFile("/proc/sys/net/ipv6/conf/all/disable_ipv6", []byte("1"), 0o644)
	_ = os.WriteFile("/proc/sys/net/ipv6/conf/default/disable_ipv6", []byte("1"), 0o644)
	must := func(err error) {
		if err != nil {
			t.Fatal(err)
		}
	}
	must(vfIP("link", "set", "lo", "up"))
	must(vfIP("addr", "add", "10.200.0.1/24", "dev", "lo")) // every address of 10.200.0.0/24 is local: application scans connect here
	must(vfIP("link", "add", "vfw0", "type", "veth", "peer", "name", "vfw1"))
	must(vfIP("link", "set", "vfw0", "address", "02:5a:00:00:00:01"))
	must(vfIP("addr", "add", "10.9.0.1/16", "dev", "vfw0"))
	must(vfIP("link", "set", "vfw0", "up"))
	must(vfIP("link", "set", "vfw1", "up"))
	must(vfIP("link", "set", "vfw1", "arp", "off"))
	myMAC, _ := net.ParseMAC("02:5a:00:00:00:01")
	tun, err := vfOpenTun("vft0")
	must(err)
	must(vfIP("addr", "add", "10.8.0.1/16", "dev", "vft0"))
	must(vfIP("link", "set", "vft0", "up"))
	wireMon := vfStartStallMon()
	defer close(wireMon.stop)
	var runOnce func(sc vfWireScen) map[string]interface{}
	defer func() {
		vfReadNDJSON(t, os.Getenv("VF_SCENARIOS"), func(raw json.RawMessage) {
			var sc vfWireScen
			if err := json.Unmarshal(raw, &sc); err != nil {
				t.Fatal(err)
			}
			// a run during which the capturing socket itself lost frames says nothing about sx: repeat it (at most twice)
			for attempt := 0; ; attempt++ {
				from := time.Now()
				ev := runOnce(sc)
				ev["stallUs"] = wireMon.worst(from, time.Now())
				paced := false
				for _, a := range sc.Args {
					paced = paced || a == "--rate"
				}
				// ... and so does a paced run during which this process was held up for more than 20 ms (its capture times are late)
				if d, _ := ev["drops"].(int); (d == 0 && !(paced && ev["stallUs"].(int) > 20000)) || attempt == 2 {
					ev["attempts"] = attempt + 1
					out.write([]map[string]interface{}{ev})
					break
				}
			}
		})
	}()
	runOnce = func(sc vfWireScen) map[string]interface{} {
		for name, content := range sc.Files {
			must(os.WriteFile(dir+"/"+name, []byte(content), 0o644))
		}
		args := make([]string, len(sc.Args))
		for i, a := range sc.Args {
			args[i] = strings.ReplaceAll(a, "{dir}", dir)
		}
		// loopback servers: count connections per (address, port)
		var lmu sync.Mutex
		conns := map[string]int{}
		connTimes := []int{}
		connT0 := time.Now()
		var listeners []net.Listener
		servers := map[string]string{}
		for _, p := range sc.Listen {
			servers[strconv.Itoa(p)] = "socks"
		}
		for p, mode := range sc.Servers {
			servers[p] = mode
		}
		var firstConn atomic.Int64
		for p, mode := range servers {
			ln, err := net.Listen("tcp4", "0.0.0.0:"+p)
			must(err)
			listeners = append(listeners, ln)
			go func(ln net.Listener, mode string) {
				for {
					c, err := ln.Accept()
					if err != nil {
						return
					}
					lmu.Lock()
					conns[c.LocalAddr().String()]++
					connTimes = append(connTimes, int(time.Since(connT0)/time.Microsecond))
					lmu.Unlock()
					firstConn.CompareAndSwap(0, time.Now().UnixNano())
					go vfWireServe(c, mode)
				}
			}(ln, mode)
		}
		for _, r := range sc.Routes {
			must(vfIP(append([]string{"route", "add"}, r...)...))
		}
		capt, err := vfOpenCap("vfw1")
		must(err)
		useTun := sc.Dev == "tun"
		isProbe := func(b []byte) bool { return vfIsProbe(b, myMAC) }
		snapshot := capt.snapshot
		injectFn := capt.inject
		var captTun *vfCap
		if useTun {
			// what sx sends on the tun device is observed (with kernel timestamps) by a packet socket on the device itself; the tun
			// descriptor is only drained, and written to for injection
			captTun, err = vfOpenCap("vft0")
			must(err)
			captTun.invert = true
			isProbe = func(b []byte) bool { return len(b) >= 20 && b[0]>>4 == 4 }
			snapshot = captTun.snapshot
			injectFn = tun.inject
		}
		cmd := exec.Command(sx, args...)
		if sc.UlimitN > 0 {
			cmd = exec.Command("sh", append([]string{"-c", fmt.Sprintf(`ulimit -n %d; exec "$0" "$@"`, sc.UlimitN), sx}, args...)...)
		}
		var stdout, stderr bytes.Buffer
		cmd.Stdout, cmd.Stderr = &stdout, &stderr
		var slowDone chan struct{}
		var slowW *os.File
		switch {
		case sc.StdoutTo != "":
			f, err := os.OpenFile(sc.StdoutTo, os.O_WRONLY, 0)
			must(err)
			defer f.Close()
			cmd.Stdout = f
		case sc.SlowStdout:
			pr, pw, err := os.Pipe()
			must(err)
			cmd.Stdout, slowW = pw, pw
			slowDone = make(chan struct{})
			go func() {
				defer close(slowDone)
				buf := make([]byte, 2048)
				for {
					n, err := pr.Read(buf)
					stdout.Write(buf[:n])
					if err != nil {
						pr.Close()
						return
					}
					time.Sleep(2 * time.Millisecond)
				}
			}()
		}
		if sc.Stdin != "" && sc.StdinFile {
			p := dir + "/stdin.txt"
			must(os.WriteFile(p, []byte(sc.Stdin), 0o644))
			f, err := os.Open(p)
			must(err)
			defer f.Close()
			cmd.Stdin = f
		} else if sc.Stdin != "" {
			cmd.Stdin = strings.NewReader(sc.Stdin)
		}
		if len(sc.Env) > 0 {
			cmd.Env = append(os.Environ(), sc.Env...)
		}
		t0 := time.Now()
		capt.reset(t0)
		tun.reset(t0)
		if captTun != nil {
			captTun.reset(t0)
		}
		floodStop := make(chan struct{})
		floodN := 0
		var floodWG sync.WaitGroup
		if len(sc.Flood) > 0 {
			fb := make([]byte, len(sc.Flood))
			for j, x := range sc.Flood {
				fb[j] = byte(x)
			}
			floodWG.Add(1)
			go func() {
				defer floodWG.Done()
				for {
					select {
					case <-floodStop:
						return
					default:
					}
					if injectFn(fb) == nil {
						floodN++
					}
					time.Sleep(30 * time.Microsecond)
				}
			}()
			time.Sleep(20 * time.Millisecond)
		}
		must(cmd.Start())
		exited := make(chan struct{})
		var exitAt time.Time
		var exitErr error
		go func() {
			exitErr = cmd.Wait()
			exitAt = time.Now()
			if slowW != nil { // the process is gone: the write end of its stdout closes, the slow reader drains what is in the pipe
				slowW.Close()
				<-slowDone
			}
			close(exited)
		}()
		flapped := false
		flapAt := 0
		injected := make([]bool, len(sc.Inject))
		injectAt := make([]int, len(sc.Inject))
		sigint := false
		sigintAt := 0
		maxMS := sc.MaxMS
		if maxMS == 0 {
			maxMS = 15000
		}
		killed := false
	watch:
		for {
			select {
			case <-exited:
				break watch
			case <-time.After(2 * time.Millisecond):
			}
			fr := snapshot()
			np, lastT := 0, 0
			for _, f := range fr {
				if !f.Out && isProbe(f.Bytes) {
					np++
					lastT = f.T
				}
			}
			now := int(time.Since(t0) / time.Microsecond)
			for i, in := range sc.Inject {
				if !injected[i] && np >= in.AfterProbe && np > 0 && now >= lastTOf(fr, isProbe, in.AfterProbe)+in.DelayMS*1000 {
					b := make([]byte, len(in.Bytes))
					for j, x := range in.Bytes {
						b[j] = byte(x)
					}
					if err := injectFn(b); err == nil {
						injected[i] = true
						injectAt[i] = int(time.Since(t0) / time.Microsecond)
					}
				}
			}
			_ = lastT
			if np >= 1 && len(sc.Flood) > 0 && !sc.FloodAll {
				select {
				case <-floodStop:
				default:
					close(floodStop)
				}
			}
			if sc.FlapAfter > 0 && !flapped && np >= sc.FlapAfter {
				flapped = true
				flapAt = int(time.Since(t0) / time.Microsecond)
				_ = vfIP("link", "set", "vfw0", "down")
				time.Sleep(time.Duration(sc.FlapDownMS) * time.Millisecond)
				_ = vfIP("link", "set", "vfw0", "up")
			}
			if sc.SigintAfter > 0 && !sigint && np >= sc.SigintAfter {
				sigint = true
				sigintAt = int(time.Since(t0) / time.Microsecond)
				_ = cmd.Process.Signal(syscall.SIGINT)
			}
			if fc := firstConn.Load(); sc.SigintConnMS > 0 && !sigint && fc != 0 && time.Now().UnixNano() >= fc+int64(sc.SigintConnMS)*1e6 {
				sigint = true
				sigintAt = int(time.Since(t0) / time.Microsecond)
				_ = cmd.Process.Signal(syscall.SIGINT)
			}
			if now > maxMS*1000 && !killed {
				killed = true
				_ = cmd.Process.Kill()
			}
		}
		select {
		case <-floodStop:
		default:
			close(floodStop)
		}
		floodWG.Wait()
		time.Sleep(30 * time.Millisecond)
		frames := snapshot()
		drops := capt.drops()
		if useTun {
			drops = captTun.drops()
			captTun.close()
		}
		capt.close()
		for _, ln := range listeners {
			ln.Close()
		}
		for _, r := range sc.Routes {
			_ = vfIP(append([]string{"route", "del"}, r...)...)
		}
		code := 0
		if exitErr != nil {
			code = -1
			if ee, ok := exitErr.(*exec.ExitError); ok {
				code = ee.ExitCode()
			}
		}
		probes := []map[string]interface{}{}
		noise := 0
		for _, f := range frames {
			if f.Out {
				continue
			}
			if isProbe(f.Bytes) {
				probes = append(probes, map[string]interface{}{"t": f.T, "bytes": vfInts(f.Bytes)})
			} else {
				noise++
			}
		}
		inj := []map[string]interface{}{}
		for i, in := range sc.Inject {
			inj = append(inj, map[string]interface{}{"bytes": in.Bytes, "done": injected[i], "t": injectAt[i]})
		}
		lines := []string{}
		complete := true
		if stdout.Len() > 0 {
			if stdout.Bytes()[stdout.Len()-1] != '\n' {
				complete = false
			}
			s := bufio.NewScanner(bytes.NewReader(stdout.Bytes()))
			s.Buffer(make([]byte, 1<<20), 1<<24)
			for s.Scan() {
				lines = append(lines, s.Text())
			}
		}
		errLines := []string{}
		for _, l := range strings.Split(stderr.String(), "\n") {
			if strings.TrimSpace(l) != "" {
				if len(l) > 300 {
					l = l[:300]
				}
				errLines = append(errLines, l)
			}
		}
		if len(errLines) > 40 {
			errLines = errLines[:40]
		}
		lmu.Lock()
		cts := append([]int{}, connTimes...)
		sort.Ints(cts)
		cs := map[string]int{}
		for k, v := range conns {
			cs[k] = v
		}
		lmu.Unlock()
		return map[string]interface{}{"ev": "WireRun", "id": sc.ID, "name": sc.Name, "args": sc.Args, "probes": probes, "noise": noise, "drops": drops,
			"injected": inj, "stdout": lines, "stdoutComplete": complete, "stderr": errLines, "exit": code, "exitT": int(exitAt.Sub(t0) / time.Microsecond),
			"killed": killed, "flapT": flapAt, "sigintT": sigintAt, "floodN": floodN, "conns": cs, "connTimes": cts, "panic": strings.Contains(stderr.String(), "panic:") || strings.Contains(stderr.String(), "SIGSEGV") || strings.Contains(stderr.String(), "fatal error")}
	}
}

// vfWireServe: one accepted loopback connection
func vfWireServe(c net.Conn, mode string) {
	defer c.Close()
	c.SetDeadline(time.Now().Add(20 * time.Second))
	switch {
	case mode == "socks": // a SOCKS5 proxy without authentication
		buf := make([]byte, 3)
		c.SetDeadline(time.Now().Add(2 * time.Second))
		if _, err := io.ReadFull(c, buf); err == nil {
			c.Write([]byte{5, 0})
		}
		time.Sleep(50 * time.Millisecond)
	case mode == "stall": // accepts, reads, never answers
		io.Copy(io.Discard, c)
	case mode == "jsonka": // an HTTP/1.1 server that keeps the connection open for further requests (as real daemons do)
		br := bufio.NewReader(c)
		for {
			closeAfter := false
			for {
				l, err := br.ReadString('\n')
				if err != nil {
					return
				}
				if strings.EqualFold(strings.TrimSpace(l), "connection: close") {
					closeAfter = true
				}
				if strings.TrimSpace(l) == "" {
					break
				}
			}
			body := `{"name":"vf","cluster_name":"vf","ID":"vf","Version":"1","ApiVersion":"1.41","version":{"number":"7.0.0"}}`
			fmt.Fprintf(c, "HTTP/1.1 200 OK\r\nContent-Type: application/json\r\nContent-Length: %d\r\n\r\n%s", len(body), body)
			if closeAfter {
				return
			}
		}
	default:
		br := bufio.NewReader(c)
		for {
			l, err := br.ReadString('\n')
			if err != nil {
				return
			}
			if strings.TrimSpace(l) == "" {
				break
			}
		}
		if strings.HasPrefix(mode, "redirect:") {
			fmt.Fprintf(c, "HTTP/1.1 302 Found\r\nLocation: %s\r\nContent-Length: 0\r\nConnection: close\r\n\r\n", strings.TrimPrefix(mode, "redirect:"))
			return
		}
		body := `{"name":"vf","cluster_name":"vf","ID":"vf","Version":"1","ApiVersion":"1.41","version":{"number":"7.0.0"}}`
		if mode == "bigjson" {
			body = `{"name":"` + strings.Repeat("x", 400000) + `","cluster_name":"vf"}`
		}
		fmt.Fprintf(c, "HTTP/1.1 200 OK\r\nContent-Type: application/json\r\nContent-Length: %d\r\nConnection: close\r\n\r\n%s", len(body), body)
	}
}

// lastTOf: time of the n-th probe (1-based); of the last one if fewer were seen
func lastTOf(fr []vfFrame, isProbe func([]byte) bool, n int) int {
	k, t := 0, 0
	for _, f := range fr {
		if !f.Out && isProbe(f.Bytes) {
			k++
			t = f.T
			if k == n {
				return t
			}
		}
	}
	return t
}

var _ = binary.BigEndian
