-------------------------------- MODULE IPv4 --------------------------------
(* addresses are 4-tuples of octets: TLC integers are 32-bit, 2^32 does not fit *)
EXTENDS Integers, Sequences, FiniteSets
Octet == 0..255
Pow2(k) == CASE k = 0 -> 1 [] k = 1 -> 2 [] k = 2 -> 4 [] k = 3 -> 8 [] k = 4 -> 16 [] k = 5 -> 32 [] k = 6 -> 64 [] k = 7 -> 128 [] k = 8 -> 256
\* bits of octet k (1..4) covered by a prefix of length len
Cov(len, k) == IF len >= 8 * k THEN 8 ELSE IF len <= 8 * (k - 1) THEN 0 ELSE len - 8 * (k - 1)
SameTop(a, b, bits) == (a \div Pow2(8 - bits)) = (b \div Pow2(8 - bits))
InNet(ip, net) == \A k \in 1..4 : SameTop(ip[k], net.ip[k], Cov(net.len, k))
\* all addresses of a network (use only for len >= 12 or so)
OctRange(o, bits) == LET lo == (o \div Pow2(8 - bits)) * Pow2(8 - bits) IN lo..(lo + Pow2(8 - bits) - 1)
NetAddrs(net) == {<<a, b, c, d>> : a \in OctRange(net.ip[1], Cov(net.len, 1)), b \in OctRange(net.ip[2], Cov(net.len, 2)),
                                   c \in OctRange(net.ip[3], Cov(net.len, 3)), d \in OctRange(net.ip[4], Cov(net.len, 4))}
=============================================================================
