SPECIFICATION Spec
CONSTANTS
  Variant = "asbuilt"
  AttachAtomic = TRUE
INVARIANT TypeOK
INVARIANT CoverageAtDone
INVARIANT InOrder
INVARIANT LateReplyReported
INVARIANT NoForeign
INVARIANT AtMostOnce
PROPERTY DelayHonoured
CHECK_DEADLOCK FALSE
