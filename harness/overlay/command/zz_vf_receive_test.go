//go:build verif

package command

// C03 / C06 harness (receive side): the real BPF filter text of each scan compiled by libpcap and executed by
// the x/net/bpf VM (snap length applied), then the real ProcessPacketData of the scan with a synchronous
// result channel. Frames are enumerated structurally (C03) or mutated / random (C06); WireTrace.tla
// (WireDecode) decides what had to be reported.

import (
	"context"
	"encoding/binary"
	"fmt"
	"math/rand"
	"net"
	"os"
	"strconv"
	"testing"
	"time"

	"github.com/google/gopacket"
	"github.com/google/gopacket/layers"
	"github.com/google/gopacket/pcap"
	"github.com/v-byte-cpu/sx/pkg/packet"
	"github.com/v-byte-cpu/sx/pkg/scan"
	"github.com/v-byte-cpu/sx/pkg/scan/arp"
	"github.com/v-byte-cpu/sx/pkg/scan/icmp"
	"github.com/v-byte-cpu/sx/pkg/scan/tcp"
	"github.com/v-byte-cpu/sx/pkg/scan/udp"
	"golang.org/x/net/bpf"
)

type vfSyncResults struct{ got []scan.Result }

func (r *vfSyncResults) Put(x scan.Result)        { r.got = append(r.got, x) }
func (r *vfSyncResults) Chan() <-chan scan.Result { return nil }

// vfAsyncMethod: a scan method built by the command's own constructor delivers its records through its own asynchronous
// two-stage result channel; frames are therefore processed in batches and the records of a batch are collected afterwards
// (FIFO order is preserved, so TLC can compare the record sequence with the sequence of reply-shaped frames)
type vfAsyncProc struct{ m *tcp.ScanMethod }

func (p *vfAsyncProc) ProcessPacketData(data []byte, ci *gopacket.CaptureInfo) error {
	return p.m.ProcessPacketData(data, ci)
}

// collect waits until the result stream has been idle for 250 ms (everything was put synchronously before)
func (p *vfAsyncProc) collect() []scan.Result {
	var out []scan.Result
	for {
		select {
		case r := <-p.m.Results():
			out = append(out, r)
		case <-time.After(250 * time.Millisecond):
			return out
		}
	}
}

func vfSyncMethod(m *tcp.ScanMethod, _ *vfSyncResults) packet.Processor { return &vfAsyncProc{m: m} }

type vfRcvCfg struct {
	Scan   string
	Vpn    bool
	HasNet bool
	Net    *net.IPNet
	Ranges []*scan.PortRange
}

type vfRcv struct {
	cfg  vfRcvCfg
	vm   *bpf.VM
	proc packet.Processor
	res  *vfSyncResults
}

// vfNewRcv wires filter and processor the way command/*.go does for each scan
func vfNewRcv(t *testing.T, cfg vfRcvCfg) *vfRcv { return vfNewRcvMode(t, cfg, false) }

// direct: the processors are constructed directly with a synchronous result channel (per-frame attribution for arbitrary bytes)
func vfNewRcvMode(t *testing.T, cfg vfRcvCfg, direct bool) *vfRcv {
	res := &vfSyncResults{}
	r := &scan.Range{Ports: cfg.Ranges}
	if cfg.HasNet {
		r.DstSubnet = cfg.Net
	}
	var filter string
	var snap int
	var proc packet.Processor
	switch cfg.Scan {
	case "tcpsyn", "tcpfin", "tcpnull", "tcpxmas", "tcpflags":
		if !direct {
			break
		}
		if cfg.Scan == "tcpsyn" {
			filter, snap = tcp.SYNACKBPFFilter(r)
			proc = tcp.NewScanMethod(tcp.SYNScanType, nil, res, tcp.WithPacketFilterFunc(func(pkt *layers.TCP) bool { return pkt.SYN && pkt.ACK }),
				tcp.WithPacketFlagsFunc(tcp.EmptyFlags), tcp.WithScanVPNmode(cfg.Vpn))
		} else {
			filter, snap = tcp.BPFFilter(r)
			proc = tcp.NewScanMethod(cfg.Scan, nil, res, tcp.WithPacketFilterFunc(tcp.TrueFilter), tcp.WithPacketFlagsFunc(tcp.AllFlags), tcp.WithScanVPNmode(cfg.Vpn))
		}
	}
	switch {
	case proc != nil:
	case cfg.Scan == "tcpsyn":
		filter, snap = tcp.SYNACKBPFFilter(r)
		// built by the command's own constructor (option lists as in tcp_syn.go); only the result channel is replaced by the synchronous one
		o := &tcpCmdOpts{}
		o.vpnMode = cfg.Vpn
		proc = vfSyncMethod(o.newTCPScanMethod(context.Background(), withTCPScanName(tcp.SYNScanType), withTCPPacketFillerOptions(tcp.WithSYN()),
			withTCPPacketFilterFunc(func(pkt *layers.TCP) bool { return pkt.SYN && pkt.ACK }), withTCPPacketFlags(tcp.EmptyFlags)), res)
	case cfg.Scan == "tcpfin" || cfg.Scan == "tcpnull" || cfg.Scan == "tcpxmas" || cfg.Scan == "tcpflags":
		filter, snap = tcp.BPFFilter(r)
		o := &tcpCmdOpts{}
		o.vpnMode = cfg.Vpn
		proc = vfSyncMethod(o.newTCPScanMethod(context.Background(), withTCPScanName(cfg.Scan), withTCPPacketFillerOptions(tcp.WithFIN()),
			withTCPPacketFilterFunc(tcp.TrueFilter), withTCPPacketFlags(tcp.AllFlags)), res)
	case cfg.Scan == "udp":
		filter, snap = icmp.BPFFilter(r)
		proc = udp.NewScanMethod(nil, res, cfg.Vpn)
	case cfg.Scan == "icmp":
		filter, snap = icmp.BPFFilter(r)
		proc = icmp.NewScanMethod(nil, res, cfg.Vpn)
	case cfg.Scan == "arp":
		filter, snap = arp.BPFFilter(r)
		proc = arp.NewScanMethod(nil, res)
	}
	link := layers.LinkTypeEthernet
	if cfg.Vpn {
		link = layers.LinkTypeIPv4
	}
	ins, err := pcap.CompileBPFFilter(link, snap, filter)
	if err != nil {
		t.Fatalf("compile %q: %v", filter, err)
	}
	raw := make([]bpf.RawInstruction, len(ins))
	for i, in := range ins {
		raw[i] = bpf.RawInstruction{Op: in.Code, Jt: in.Jt, Jf: in.Jf, K: in.K}
	}
	prog, ok := bpf.Disassemble(raw)
	if !ok {
		t.Fatalf("disassemble %q", filter)
	}
	vm, err := bpf.NewVM(prog)
	if err != nil {
		t.Fatalf("vm %q: %v", filter, err)
	}
	return &vfRcv{cfg: cfg, vm: vm, proc: proc, res: res}
}

func (c vfRcvCfg) json() map[string]interface{} {
	rs := []map[string]int{}
	for _, r := range c.Ranges {
		rs = append(rs, map[string]int{"lo": int(r.StartPort), "hi": int(r.EndPort)})
	}
	n := map[string]interface{}{"ip": []int{0, 0, 0, 0}, "len": 0}
	if c.HasNet {
		ones, _ := c.Net.Mask.Size()
		n = map[string]interface{}{"ip": vfInts(c.Net.IP.To4()), "len": ones}
	}
	return map[string]interface{}{"scan": c.Scan, "vpn": c.Vpn, "hasNet": c.HasNet, "net": n, "ranges": rs}
}

func vfRecOf(scanName string, rs []scan.Result) map[string]interface{} {
	rec := map[string]interface{}{"scan": "", "ip": []int{0, 0, 0, 0}, "port": 0, "flags": []string{}, "flagsKnown": scanName != "tcpsyn", "ttl": 0, "type": 0, "code": 0, "mac": []int{}}
	if len(rs) == 0 {
		return rec
	}
	ip4 := func(s string) []int {
		p := net.ParseIP(s).To4()
		if p == nil {
			return []int{-1, -1, -1, -1}
		}
		return vfInts(p)
	}
	switch x := rs[0].(type) {
	case *tcp.ScanResult:
		rec["scan"], rec["ip"], rec["port"] = x.ScanType, ip4(x.IP), int(x.Port)
		fl := []string{}
		for _, c := range x.Flags {
			fl = append(fl, string(c))
		}
		rec["flags"] = fl
	case *icmp.ScanResult:
		rec["scan"], rec["ip"], rec["ttl"], rec["type"], rec["code"] = x.ScanType, ip4(x.IP), int(x.TTL), int(x.ICMP.Type), int(x.ICMP.Code)
	case *arp.ScanResult:
		rec["ip"] = ip4(x.IP)
		m, err := net.ParseMAC(x.MAC)
		if err != nil || len(m) != 6 {
			rec["mac"] = []int{-1}
		} else {
			rec["mac"] = vfInts(m)
		}
		rec["raw"] = x.IP + " " + x.MAC
	}
	return rec
}

// process runs one frame through the processor (exact-capacity slice), recovering a crash
func (r *vfRcv) process(frame []byte) (status string, recs []scan.Result, text string) {
	r.res.got = nil
	data := make([]byte, len(frame))
	copy(data, frame)
	status = "ok"
	func() {
		defer func() {
			if p := recover(); p != nil {
				status, text = "crash", fmt.Sprint(p)
			}
		}()
		if err := r.proc.ProcessPacketData(data, &gopacket.CaptureInfo{}); err != nil {
			status, text = "err", err.Error()
		}
	}()
	return status, r.res.got, text
}

// through runs the frame through the filter (snap length applied) and, if accepted, the processor
func (r *vfRcv) through(frame []byte) (status string, recs []scan.Result, text string) {
	n, err := r.vm.Run(frame)
	if err != nil || n == 0 {
		return "ok", nil, "filtered"
	}
	if n < len(frame) {
		frame = frame[:n]
	}
	return r.process(frame)
}

// ---------- frame builders (inputs only; nothing here says what must be reported) ----------

func vfCk(b []byte) uint16 {
	sum := 0
	for i := 0; i+1 < len(b); i += 2 {
		sum += int(b[i])<<8 | int(b[i+1])
	}
	if len(b)%2 == 1 {
		sum += int(b[len(b)-1]) << 8
	}
	for sum>>16 != 0 {
		sum = sum&0xffff + sum>>16
	}
	return ^uint16(sum)
}

func vfEth(et int) []byte {
	return []byte{2, 0, 0, 0, 0, 0xaa, 2, 0, 0, 0, 0, 0xbb, byte(et >> 8), byte(et)}
}

// IPv4 header with ihl words (options = NOPs), given protocol, flags/fragment field, ttl, src; total length covers the payload
func vfIP4(ihl int, proto int, fragField int, ttl int, src net.IP, payload []byte) []byte {
	h := make([]byte, ihl*4)
	h[0] = byte(0x40 | ihl)
	binary.BigEndian.PutUint16(h[2:], uint16(len(h)+len(payload)))
	binary.BigEndian.PutUint16(h[4:], 0x1234)
	binary.BigEndian.PutUint16(h[6:], uint16(fragField))
	h[8], h[9] = byte(ttl), byte(proto)
	copy(h[12:16], src.To4())
	copy(h[16:20], net.IPv4(10, 9, 0, 200).To4())
	for i := 20; i < len(h); i++ {
		h[i] = 1 // NOP
	}
	binary.BigEndian.PutUint16(h[10:], vfCk(h))
	return append(h, payload...)
}

func vfTCP(sport, dport, flags9, doff int, payload []byte) []byte {
	h := make([]byte, doff*4)
	binary.BigEndian.PutUint16(h[0:], uint16(sport))
	binary.BigEndian.PutUint16(h[2:], uint16(dport))
	binary.BigEndian.PutUint32(h[4:], 0x01020304)
	h[12] = byte(doff<<4 | (flags9>>8)&1)
	h[13] = byte(flags9)
	binary.BigEndian.PutUint16(h[14:], 64240)
	for i := 20; i < len(h); i++ {
		h[i] = 1
	}
	return append(h, payload...)
}

func vfICMP(typ, code int, payload []byte) []byte {
	h := []byte{byte(typ), byte(code), 0, 0, 0x12, 0x34, 0, 1}
	h = append(h, payload...)
	binary.BigEndian.PutUint16(h[2:], vfCk(h))
	return h
}

func vfARP(op int, htype, ptype, hlen, plen int, sha []byte, spa []byte) []byte {
	b := []byte{byte(htype >> 8), byte(htype), byte(ptype >> 8), byte(ptype), byte(hlen), byte(plen), byte(op >> 8), byte(op)}
	b = append(b, sha...)
	b = append(b, spa...)
	b = append(b, make([]byte, hlen)...)
	b = append(b, make([]byte, plen)...)
	return b
}

func vfLink(vpn bool, et int, l3 []byte) []byte {
	if vpn {
		return l3
	}
	return append(vfEth(et), l3...)
}

func TestVfReplyShape(t *testing.T) {
	out := vfOpenOut(t, "VF_OUT")
	defer out.close()
	seed, _ := strconv.ParseInt(os.Getenv("VERIF_SEED"), 10, 64)
	thorough := os.Getenv("VERIF_TIER") == "thorough"
	rnd := rand.New(rand.NewSource(seed*179424673 + 9))
	_, subnet, _ := net.ParseCIDR("10.9.3.64/26")
	srcs := []net.IP{net.IPv4(10, 9, 3, 64), net.IPv4(10, 9, 3, 127), net.IPv4(10, 9, 3, 63), net.IPv4(10, 9, 3, 128), net.IPv4(192, 168, 7, 7)}
	ranges := []*scan.PortRange{{StartPort: 80, EndPort: 82}, {StartPort: 443, EndPort: 443}}
	sports := []int{79, 80, 81, 82, 83, 443, 444, 1, 65535}
	id := 0
	var batchR *vfRcv
	var batchFrames [][]int
	var batchStatus []string
	flush := func() {
		if batchR == nil {
			return
		}
		ap := batchR.proc.(*vfAsyncProc)
		recs := ap.collect()
		rs := []map[string]interface{}{}
		for _, x := range recs {
			rs = append(rs, vfRecOf(batchR.cfg.Scan, []scan.Result{x}))
		}
		id++
		out.write([]map[string]interface{}{{"ev": "ReplyBatch", "id": id, "cfg": batchR.cfg.json(), "frames": batchFrames, "status": batchStatus, "recs": rs}})
		batchR, batchFrames, batchStatus = nil, nil, nil
	}
	var heldR *vfRcv
	var held []scan.Result
	var heldFrames [][]int
	var heldStatus []string
	flushHeld := func() {
		if heldR == nil {
			return
		}
		rs := []map[string]interface{}{}
		for _, x := range held {
			rs = append(rs, vfRecOf(heldR.cfg.Scan, []scan.Result{x}))
		}
		id++
		out.write([]map[string]interface{}{{"ev": "ReplyBatch", "id": id, "cfg": heldR.cfg.json(), "frames": heldFrames, "status": heldStatus, "recs": rs}})
		heldR, held, heldFrames, heldStatus = nil, nil, nil, nil
	}
	emit := func(r *vfRcv, frame []byte) {
		if _, async := r.proc.(*vfAsyncProc); async {
			if batchR != r || len(batchFrames) >= 600 {
				flush()
				batchR = r
			}
			status, _, _ := r.through(frame)
			batchFrames = append(batchFrames, vfInts(frame))
			batchStatus = append(batchStatus, status)
			return
		}
		flush()
		id++
		status, recs, text := r.through(frame)
		out.write([]map[string]interface{}{{"ev": "Reply", "id": id, "cfg": r.cfg.json(), "bytes": vfInts(frame), "status": status, "nrec": len(recs), "rec": vfRecOf(r.cfg.Scan, recs), "text": text}})
		// the result objects are also kept and read a second time when the receiver has seen all its frames, as a logger behind a
		// queue would read them: a record must not change after it was handed over
		if heldR != r {
			flushHeld()
			heldR = r
		}
		held = append(held, recs...)
		heldFrames = append(heldFrames, vfInts(frame))
		heldStatus = append(heldStatus, status)
	}
	defer flush()
	defer flushHeld()
	type mode struct {
		vpn, hasNet, ports bool
	}
	modes := []mode{{false, true, true}, {false, false, false}, {false, false, true}, {true, true, true}, {true, false, false}}
	for _, sc := range []string{"tcpsyn", "tcpfin", "tcpnull", "tcpxmas", "tcpflags"} {
		for _, m := range modes {
			cfg := vfRcvCfg{Scan: sc, Vpn: m.vpn, HasNet: m.hasNet, Net: subnet}
			if m.ports {
				cfg.Ranges = ranges
			}
			r := vfNewRcv(t, cfg)
			flagsets := []int{0x12, 0x02, 0x10, 0x14, 0x04, 0x01, 0x29, 0x00, 0x1ff, 0x112, 0x52, 0x92, 0x1a, 0x32}
			if sc == "tcpsyn" || sc == "tcpflags" {
				flagsets = flagsets[:0]
				for f := 0; f < 512; f++ {
					flagsets = append(flagsets, f)
				}
			}
			for _, fl := range flagsets {
				// every flag set on an in-range source / port, a sample of them elsewhere
				emit(r, vfLink(m.vpn, 0x0800, vfIP4(5, 6, 0x4000, 64, srcs[0], vfTCP(80, 40000, fl, 8, nil))))
				src := srcs[rnd.Intn(len(srcs))]
				sp := sports[rnd.Intn(len(sports))]
				ihl := []int{5, 6, 15}[rnd.Intn(3)]
				doff := []int{5, 8, 15}[rnd.Intn(3)]
				var pl []byte
				if rnd.Intn(2) == 0 {
					pl = []byte{1, 2, 3}
				}
				emit(r, vfLink(m.vpn, 0x0800, vfIP4(ihl, 6, []int{0x4000, 0}[rnd.Intn(2)], 1+rnd.Intn(255), src, vfTCP(sp, 40000, fl, doff, pl))))
			}
			// histories that differ only in the NS bit (byte 12) while byte 13 stays the same
			if sc != "tcpsyn" {
				for _, lo8 := range []int{0x14, 0x12, 0x00, 0xff, 0x29} {
					for _, fl := range []int{lo8, lo8 | 0x100, lo8, lo8 | 0x100, lo8 | 0x100, lo8} {
						emit(r, vfLink(m.vpn, 0x0800, vfIP4(5, 6, 0x4000, 64, srcs[0], vfTCP(80, 40000, fl, 5, nil))))
					}
				}
			}
			// the whole source x port grid with SYN+ACK and RST+ACK, plain and with IP + TCP options
			for _, src := range srcs {
				for _, sp := range sports {
					for _, fl := range []int{0x12, 0x14} {
						emit(r, vfLink(m.vpn, 0x0800, vfIP4(5, 6, 0x4000, 64, src, vfTCP(sp, 40000, fl, 5, nil))))
						if thorough || rnd.Intn(3) == 0 {
							emit(r, vfLink(m.vpn, 0x0800, vfIP4(15, 6, 0, 64, src, vfTCP(sp, 40000, fl, 15, []byte{9, 9}))))
						}
					}
				}
			}
			// unsolicited traffic: other protocols, IPv6, IP-in-IP, fragments, ARP, ICMP
			in := srcs[0]
			emit(r, vfLink(m.vpn, 0x0800, vfIP4(5, 17, 0, 64, in, []byte{0, 80, 0x9c, 0x40, 0, 8, 0, 0})))
			emit(r, vfLink(m.vpn, 0x0800, vfIP4(5, 1, 0, 64, in, vfICMP(0, 0, []byte{1, 2}))))
			emit(r, vfLink(m.vpn, 0x0800, vfIP4(5, 4, 0, 64, in, vfIP4(5, 6, 0, 64, in, vfTCP(80, 40000, 0x12, 5, nil)))))
			emit(r, vfLink(m.vpn, 0x0800, vfIP4(5, 6, 0x2000, 64, in, vfTCP(80, 40000, 0x12, 5, nil)))) // MF set: first fragment
			emit(r, vfLink(m.vpn, 0x0800, vfIP4(5, 6, 0x0005, 64, in, vfTCP(80, 40000, 0x12, 5, nil)))) // fragment offset 5
			if !m.vpn {
				v6 := append([]byte{0x60, 0, 0, 0, 0, 20, 6, 64}, make([]byte, 32)...)
				emit(r, append(vfEth(0x86dd), append(v6, vfTCP(80, 40000, 0x12, 5, nil)...)...))
				emit(r, append(vfEth(0x0806), vfARP(2, 1, 0x0800, 6, 4, []byte{2, 0, 0, 0, 0, 1}, in.To4())...))
			}
		}
	}
	for _, sc := range []string{"icmp", "udp"} {
		for _, m := range []mode{{false, true, false}, {false, false, false}, {true, true, false}, {false, true, true}} {
			cfg := vfRcvCfg{Scan: sc, Vpn: m.vpn, HasNet: m.hasNet, Net: subnet}
			if m.ports && sc == "udp" {
				cfg.Ranges = ranges // the port ranges of a udp scan do not constrain the icmp replies
			}
			r := vfNewRcv(t, cfg)
			for _, src := range srcs {
				for _, typ := range []int{0, 3, 8, 11, 13, 255} {
					for _, code := range []int{0, 3, 255} {
						ttl := []int{1, 64, 255}[rnd.Intn(3)]
						ihl := []int{5, 5, 6, 15}[rnd.Intn(4)]
						emit(r, vfLink(m.vpn, 0x0800, vfIP4(ihl, 1, []int{0, 0x4000}[rnd.Intn(2)], ttl, src, vfICMP(typ, code, []byte{1, 2, 3, 4, 5}[:rnd.Intn(6)]))))
					}
				}
			}
			in := srcs[1]
			emit(r, vfLink(m.vpn, 0x0800, vfIP4(5, 6, 0, 64, in, vfTCP(80, 40000, 0x12, 5, nil))))
			emit(r, vfLink(m.vpn, 0x0800, vfIP4(5, 17, 0, 64, in, []byte{0, 80, 0x9c, 0x40, 0, 8, 0, 0})))
			emit(r, vfLink(m.vpn, 0x0800, vfIP4(5, 4, 0, 64, in, vfIP4(5, 1, 0, 64, in, vfICMP(3, 3, nil)))))
			emit(r, vfLink(m.vpn, 0x0800, vfIP4(5, 1, 0x2000, 64, in, vfICMP(3, 3, nil))))
			emit(r, vfLink(m.vpn, 0x0800, vfIP4(5, 1, 0x0003, 64, in, vfICMP(3, 3, nil))))
		}
	}
	for _, hasNet := range []bool{true, false} {
		r := vfNewRcv(t, vfRcvCfg{Scan: "arp", HasNet: hasNet, Net: subnet})
		for _, src := range srcs {
			for _, op := range []int{1, 2} {
				sha := make([]byte, 6)
				rnd.Read(sha)
				emit(r, append(vfEth(0x0806), vfARP(op, 1, 0x0800, 6, 4, sha, src.To4())...))
				emit(r, append(append(vfEth(0x0806), vfARP(op, 1, 0x0800, 6, 4, sha, src.To4())...), make([]byte, 18)...)) // padded to 60
			}
		}
		emit(r, vfLink(false, 0x0800, vfIP4(5, 6, 0, 64, srcs[0], vfTCP(80, 40000, 0x12, 5, nil))))
	}
	flush()
	flushHeld()
	fmt.Printf("VF_RUNS=%d\n", id)
}

// ---------- C06: arbitrary bytes, histories ----------

func TestVfPhantom(t *testing.T) {
	out := vfOpenOut(t, "VF_OUT")
	defer out.close()
	seed, _ := strconv.ParseInt(os.Getenv("VERIF_SEED"), 10, 64)
	nrand, _ := strconv.Atoi(os.Getenv("VF_RANDOM"))
	rnd := rand.New(rand.NewSource(seed*373587883 + 5))
	id := 0
	in := net.IPv4(192, 168, 9, 9)
	for _, sc := range []string{"tcpflags", "tcpsyn", "icmp", "udp", "arp"} {
		for _, vpn := range []bool{false, true} {
			if sc == "arp" && vpn {
				continue
			}
			r := vfNewRcvMode(t, vfRcvCfg{Scan: sc, Vpn: vpn}, true)
			emit := func(frame []byte) {
				id++
				status, recs, text := r.process(frame)
				out.write([]map[string]interface{}{{"ev": "Frame", "id": id, "scan": sc, "vpn": vpn, "bytes": vfInts(frame), "status": status, "nrec": len(recs),
					"rec": vfRecOf(sc, recs), "text": text}})
			}
			var valid []byte
			switch sc {
			case "arp":
				valid = append(vfEth(0x0806), vfARP(2, 1, 0x0800, 6, 4, []byte{2, 0, 0, 0, 0, 1}, in.To4())...)
			case "icmp", "udp":
				valid = vfLink(vpn, 0x0800, vfIP4(5, 1, 0, 61, in, vfICMP(3, 3, []byte{1, 2, 3})))
			default:
				valid = vfLink(vpn, 0x0800, vfIP4(5, 6, 0x4000, 64, in, vfTCP(4444, 40000, 0x12, 8, []byte{7, 7})))
			}
			// zero-valued and extreme fields in the very first frame a fresh processor sees (state that starts as the zero value
			// must not pass for "same as the last frame"): source 0.0.0.0 / port 0 / no flags / type 0 code 0 ttl 0 / all-zero MAC
			for _, src := range []net.IP{net.IPv4(0, 0, 0, 0), net.IPv4(255, 255, 255, 255), net.IPv4(0, 0, 0, 1), net.IPv4(127, 0, 0, 1)} {
				for _, zero := range []bool{true, false} {
					fr := vfNewRcvMode(t, vfRcvCfg{Scan: sc, Vpn: vpn}, true)
					var f []byte
					switch {
					case sc == "arp" && zero:
						f = append(vfEth(0x0806), vfARP(2, 1, 0x0800, 6, 4, []byte{0, 0, 0, 0, 0, 0}, src.To4())...)
					case sc == "arp":
						f = append(vfEth(0x0806), vfARP(2, 1, 0x0800, 6, 4, []byte{255, 255, 255, 255, 255, 255}, src.To4())...)
					case (sc == "icmp" || sc == "udp") && zero:
						f = vfLink(vpn, 0x0800, vfIP4(5, 1, 0, 0, src, vfICMP(0, 0, nil)))
					case sc == "icmp" || sc == "udp":
						f = vfLink(vpn, 0x0800, vfIP4(5, 1, 0, 255, src, vfICMP(255, 255, nil)))
					case zero && sc == "tcpsyn":
						f = vfLink(vpn, 0x0800, vfIP4(5, 6, 0, 0, src, vfTCP(0, 0, 0x12, 5, nil)))
					case zero:
						f = vfLink(vpn, 0x0800, vfIP4(5, 6, 0, 0, src, vfTCP(0, 0, 0, 5, nil)))
					default:
						f = vfLink(vpn, 0x0800, vfIP4(5, 6, 0, 255, src, vfTCP(65535, 65535, 0x1ff, 5, nil)))
					}
					for k := 0; k < 2; k++ {
						id++
						status, recs, text := fr.process(f)
						out.write([]map[string]interface{}{{"ev": "Frame", "id": id, "scan": sc, "vpn": vpn, "bytes": vfInts(f), "status": status, "nrec": len(recs),
							"rec": vfRecOf(sc, recs), "text": text}})
					}
				}
			}
			// the valid frame, then every truncation of it -- each after a valid frame, so stale decoder state would show
			emit(valid)
			for n := 0; n < len(valid); n++ {
				emit(valid[:n])
				emit(valid)
			}
			// every header byte set to a range of values
			hdr := len(valid)
			if hdr > 60 {
				hdr = 60
			}
			for pos := 0; pos < hdr; pos++ {
				for _, v := range []byte{0, 1, 2, 4, 5, 6, 8, 15, 0x45, 0x4f, 0x40, 0x46, 0x50, 0xf0, 0xff} {
					f := append([]byte{}, valid...)
					f[pos] = v
					emit(f)
					if rnd.Intn(8) == 0 {
						emit(valid)
					}
				}
			}
			if sc == "arp" {
				// address sizes and types that are not Ethernet/IPv4
				for _, hp := range [][4]int{{1, 0x0800, 0, 0}, {1, 0x0800, 3, 2}, {1, 0x0800, 8, 16}, {1, 0x0800, 128, 0}, {1, 0x0800, 6, 16}, {6, 0x0800, 6, 4}, {1, 0x86dd, 6, 4},
					{0x0101, 0x0800, 6, 4}, {1, 0x0800, 1, 4}, {1, 0x0800, 6, 1}, {1, 0x0800, 255, 255},
					// sizes that are wrong but add up to the 10 address bytes of an Ethernet/IPv4 body (same frame length)
					{1, 0x0800, 7, 3}, {1, 0x0800, 8, 2}, {1, 0x0800, 4, 6}, {1, 0x0800, 2, 8}, {1, 0x0800, 10, 0}, {1, 0x0800, 0, 10}, {1, 0x0800, 5, 5}, {1, 0x0800, 9, 1}} {
					sha := make([]byte, hp[2])
					spa := make([]byte, hp[3])
					rnd.Read(sha)
					rnd.Read(spa)
					emit(append(vfEth(0x0806), vfARP(2, hp[0], hp[1], hp[2], hp[3], sha, spa)...))
					emit(valid)
				}
			} else {
				l4 := 6
				seg := vfTCP(5555, 40000, 0x14, 5, nil)
				if sc == "icmp" || sc == "udp" {
					l4, seg = 1, vfICMP(11, 0, nil)
				}
				udpSeg := []byte{0x30, 0x39, 0x9c, 0x40, 0, 8, 0, 0}
				for _, f := range [][]byte{
					vfLink(vpn, 0x0800, vfIP4(5, 4, 0, 64, in, vfIP4(5, 17, 0, 64, in, udpSeg))),                // IP-in-IP + UDP
					vfLink(vpn, 0x0800, vfIP4(5, 4, 0, 64, in, vfIP4(5, l4, 0, 64, net.IPv4(1, 2, 3, 4), seg))), // IP-in-IP + L4
					vfLink(vpn, 0x0800, vfIP4(5, 17, 0, 64, in, udpSeg)),
					vfLink(vpn, 0x0800, vfIP4(5, l4, 0x2000, 64, in, seg)),
					vfLink(vpn, 0x0800, vfIP4(5, l4, 0x0010, 64, in, seg)),
					vfLink(vpn, 0x0800, vfIP4(15, l4, 0, 64, in, seg)),
					vfLink(vpn, 0x0800, vfIP4(5, l4, 0, 64, in, seg[:4])),
					vfLink(vpn, 0x0800, vfIP4(5, 4, 0, 64, in, vfIP4(5, 4, 0, 64, in, vfIP4(5, l4, 0, 64, in, seg)))),
					vfLink(vpn, 0x86dd, append([]byte{0x60, 0, 0, 0, 0, 20, byte(l4), 64}, append(make([]byte, 32), seg...)...)),
					vfLink(vpn, 0x8100, []byte{0, 5, 8, 0}),
				} {
					emit(valid)
					emit(f)
					emit(f)
				}
			}
			if !vpn {
				// every EtherType gopacket has a decoder for (and some it has none for), carrying an inner Ethernet frame, the bare
				// upper layers of the valid frame, or noise - each after a valid frame: a two-layer chain that is not the scanned one
				// (Ethernet in Ethernet, VLAN tags, MPLS, PPPoE ...) must not leave the previous frame's fields in place
				ets := []int{0x6558, 0x8100, 0x88a8, 0x9100, 0x8847, 0x8848, 0x8863, 0x8864, 0x88cc, 0x888e, 0x2000, 0x0806, 0x0800, 0x86dd, 0x22f3, 0x88e5, 0x8035, 0x0842, 0x05dc, 0x0000, 0xffff}
				for k := 0; k < 40; k++ {
					ets = append(ets, rnd.Intn(65536))
				}
				for _, et := range ets {
					noise := make([]byte, 40)
					rnd.Read(noise)
					for _, payload := range [][]byte{valid, valid[14:], noise, append([]byte{0, 5, 8, 6}, valid[14:]...), append([]byte{0, 5, 8, 0}, valid[14:]...)} {
						emit(valid)
						emit(append(vfEth(et), payload...))
					}
				}
			}
			for k := 0; k < nrand; k++ {
				n := rnd.Intn(120)
				f := make([]byte, n)
				rnd.Read(f)
				if rnd.Intn(2) == 0 && n > 14 && !vpn {
					copy(f[12:], []byte{8, 0})
					if sc == "arp" {
						copy(f[12:], []byte{8, 6})
					}
					if n > 15 {
						f[14] = byte(0x40 | rnd.Intn(16))
					}
				}
				if rnd.Intn(3) == 0 {
					emit(valid)
				}
				emit(f)
			}
		}
	}
	// histories of valid frames through the scan methods as the commands build them (asynchronous results): each record must carry the
	// fields of its own frame, also when consecutive frames differ in a single header bit
	for _, sc := range []string{"tcpflags", "tcpfin"} {
		for _, vpn := range []bool{false, true} {
			r := vfNewRcv(t, vfRcvCfg{Scan: sc, Vpn: vpn})
			ap := r.proc.(*vfAsyncProc)
			var frames [][]int
			var status []string
			for k := 0; k < 400; k++ {
				fl := rnd.Intn(512)
				for _, f := range []int{fl, fl ^ 0x100, fl ^ (1 << uint(rnd.Intn(8))), fl} {
					frame := vfLink(vpn, 0x0800, vfIP4(5, 6, 0x4000, 1+rnd.Intn(255), net.IPv4(10, 1, byte(rnd.Intn(4)), byte(1+rnd.Intn(3))), vfTCP(1+rnd.Intn(3), 40000, f, 5, nil)))
					st, _, _ := r.process(frame)
					frames = append(frames, vfInts(frame))
					status = append(status, st)
				}
				if len(frames) >= 600 {
					rs := []map[string]interface{}{}
					for _, x := range ap.collect() {
						rs = append(rs, vfRecOf(sc, []scan.Result{x}))
					}
					id++
					out.write([]map[string]interface{}{{"ev": "ReplyBatch", "id": id, "cfg": r.cfg.json(), "frames": frames, "status": status, "recs": rs}})
					frames, status = nil, nil
				}
			}
		}
	}
	fmt.Printf("VF_RUNS=%d\n", id)
}
