"""Shared by C03 / C06 / C11: validation of Reply / Frame events with WireTrace in parallel slices."""
import concurrent.futures
import os
import vf


def validate_wire(ctx, events, label, max_bad=40, k=8):
    slices = [events[i::k] for i in range(k)]

    def val(i):
        rest, bad = slices[i], []
        while rest and len(bad) < max_bad:
            p = os.path.join(ctx.scratch, "%s-slice-%d.ndjson" % (label, i))
            vf.write_ndjson(p, rest)
            ok, info = ctx.tlc_trace("WireTrace", p, timeout=3000, xmx="3g")
            if ok:
                break
            bad.append(rest[info["index"] - 1])
            rest = rest[:info["index"] - 1] + rest[info["index"]:]
        return bad
    with concurrent.futures.ThreadPoolExecutor(max_workers=k) as ex:
        return [b for bl in ex.map(val, range(k)) for b in bl]
