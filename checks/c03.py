"""C03 — detection exactness: a frame is reported iff it is a reply-shaped frame.
Spec: WireDecode.tla (byte-level reference decoder, ReplyShape(scan, configuration, frame), RecordOf), WireTrace.tla (what the real BPF filter +
processor of each scan did with each frame)."""
import json
import os
import vf
from checks import wire_common as wc
from checks import wire_tier as wt

LEVEL = "model_checking"
LEVEL_TEXT = ("For each scan (tcp syn / fin / null / xmas / flags, udp, icmp, arp) and configuration (subnet x ports, file without subnet, file x ports, raw-IP "
              "mode) the real filter text is compiled by libpcap, executed by the x/net/bpf VM with its snap length, and the accepted bytes go to the real "
              "ProcessPacketData; frames are enumerated structurally (5 sources around the subnet boundary x 9 source ports around the ranges x all 512 flag "
              "sets for syn / flags scans x IHL 5/6/15 x data offset 5/8/15 x payload, ICMP types / codes / TTLs, ARP operations, and unsolicited UDP, IPv6, "
              "IP-in-IP, fragments). TLC decodes every frame with the reference decoder and decides reported <=> ReplyShape and record = RecordOf; result "
              "objects are read a second time after the batch. Socket-level tier: frames injected into runs of the real binary per command and per "
              "pass (ScanRun / ScanRunTrace: a frame is printed iff it is reply-shaped under the filter of the pass that is running when it arrives).")
NOTE = ("Trusted: TLC and the reference decoder WireDecode (validated against the real code on 61 736 vectors in the design phase); the frame builders of the "
        "harness only produce inputs. The NS bit in a SYN scan is not constrained. The per-command RunE wiring of filter and processor (command/tcp_syn.go ...) "
        "and the per-chunk filter on a real AF_PACKET socket are exercised by the socket-level tier (needs unshare -n); in-process the tcp methods are built by the command's constructor.")
TECHNIQUE = "TLA+ reference decoder evaluated by TLC on frames run through the real libpcap-compiled filter (bpf VM) and the real processors"
DESIGN_REF = "DESIGN.md section 5, C03"


def run(ctx):
    ctx.cov["rule"] = "structurally enumerated frames per (scan, configuration); distinct = (configuration, frame) pairs; all are non-trivial (each is judged by ReplyShape)"
    # the socket life cycle: as found, frames queued between bind and filter attach bypass the filter (known finding F14);
    # with a drain on attach the model satisfies FilteredOnly
    ctx.tlc_mc("AfpacketSource", "MC_Afpacket_asfound", workers=2, timeout=300, expect_violation="FilteredOnly")
    ctx.tlc_mc("AfpacketSource", "MC_Afpacket_drain", workers=2, timeout=300)
    ctx.tlc_mc("MC_ScanRun", "MC_ScanRun_attachWindow", workers=2, timeout=300, expect_violation="NoForeign")
    binary = ctx.go_build_test("./command")
    trace = os.path.join(ctx.scratch, "c03-trace.ndjson")
    rc, out = ctx.go_run_test(binary, "^TestVfReplyShape$", env={"VF_OUT": trace, "VERIF_SEED": ctx.seed, "VERIF_TIER": ctx.tier}, timeout=2400)
    if rc != 0:
        ce = vf.crash_events(ctx, rc, out, "reply shape")
        ctx.violation("C03:crash", "the receive path crashed: %s" % ce[1]["text"], replay={"output": out[-20000:]})
        return
    events = vf.read_ndjson(trace)
    ctx.cov["traces_validated_against_impl"] += len(events)
    nframes = sum(len(e["frames"]) if e["ev"] == "ReplyBatch" else 1 for e in events)
    ctx.count(nframes, [("reply", e["id"], i) for e in events for i in range(len(e["frames"]) if e["ev"] == "ReplyBatch" else 1)])
    # binding self-test: a reported frame presented as not reported must be rejected
    probe = next(e for e in events if e["ev"] == "Reply" and e["nrec"] == 1)
    bad = json.loads(json.dumps(probe))
    bad["nrec"] = 0
    p = os.path.join(ctx.scratch, "c03-selftest.ndjson")
    vf.write_ndjson(p, [bad])
    ok, _ = ctx.tlc_trace("WireTrace", p)
    if ok:
        raise vf.Inconclusive("binding self-test failed: WireTrace accepted a reply-shaped frame without a record")
    ctx.step("selftest", corrupted="record of a reply-shaped frame removed", rejected=True)
    seen = set()
    for b in wc.validate_wire(ctx, events, "c03"):
        if b["ev"] == "ReplyBatch":
            key = "C03:%s:%s:batch" % (b["cfg"]["scan"], "vpn" if b["cfg"]["vpn"] else "eth")
            if key in seen:
                continue
            seen.add(key)
            ctx.violation(key, "%s scan (net %s, ranges %s): a batch of %d frames produced %d records %s...; not the records of its reply-shaped frames in order" %
                          (b["cfg"]["scan"], b["cfg"]["net"] if b["cfg"]["hasNet"] else "-", b["cfg"]["ranges"], len(b["frames"]), len(b["recs"]), b["recs"][:3]),
                          replay={"property": "C03", "trace_spec": "WireTrace", "run": [b]})
            continue
        key = "C03:%s:%s:%s" % (b["cfg"]["scan"], "vpn" if b["cfg"]["vpn"] else "eth", "reported" if b["nrec"] else "missed")
        if key in seen:
            continue
        seen.add(key)
        ctx.violation(key, "%s scan (net %s, ranges %s): frame %s... was %s with record %s; ReplyShape / RecordOf say otherwise (%s)" %
                      (b["cfg"]["scan"], b["cfg"]["net"] if b["cfg"]["hasNet"] else "-", b["cfg"]["ranges"], b["bytes"][:64],
                       "reported" if b["nrec"] else "not reported", b["rec"], b["text"]),
                      replay={"property": "C03", "trace_spec": "WireTrace", "run": [b]})
    for e in events[-2:]:
        ctx.sample({k: (v if k != "bytes" else v[:70]) for k, v in e.items()})
    # socket-level tier: the filter / processor wiring of every packet command on a real AF_PACKET socket with kernel BPF, per chunk
    n3, rej = wt.run_wire(ctx, select=lambda s: (s["expect"]["kind"] == "packet" and (s["inject"] or s.get("flood"))) or s["expect"]["kind"] == "flap", label="c03w", focus="reply")
    wt.report(ctx, "C03", rej)
    wt.scanrun_validate(ctx, "C03", "c03s")
    # stimuli enumerated by ScanRunGen (frame kind x phase of a two-pass scan), judged by ScanRunTrace
    gen = wt.generated_scenarios(ctx, 6 if ctx.tier == "quick" else 60)
    n5, rej = wt.run_wire(ctx, select=lambda s: s["name"].startswith("gen-"), label="c03g", focus="clean", extra=gen)
    wt.report(ctx, "C03", rej)
    wt.scanrun_validate(ctx, "C03", "c03gs")
