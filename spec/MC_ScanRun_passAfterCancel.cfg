SPECIFICATION Spec
CONSTANTS
  Variant = "passAfterCancel"
  AttachAtomic = TRUE
PROPERTY NoPassAfterCancel
CHECK_DEADLOCK FALSE
