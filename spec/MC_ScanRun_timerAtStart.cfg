SPECIFICATION Spec
CONSTANTS
  Variant = "timerAtStart"
  AttachAtomic = TRUE
PROPERTY DelayHonoured
CHECK_DEADLOCK FALSE
