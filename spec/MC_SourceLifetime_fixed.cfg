SPECIFICATION Spec
CONSTANTS
  Locked = TRUE
  Copying = TRUE
  PollTimeout = TRUE
  MaxFrames = 3
INVARIANT NoFault
PROPERTY CloseTerminates
PROPERTY ReaderStops
CHECK_DEADLOCK FALSE
