//go:build verif

package socks5

// C09 harness: the real socks5.Scanner.Scan against scripted loopback servers. Scripts come from TLC
// (Socks5.tla terminal states) plus reply tables; outcome, record, bytes the server received and the
// duration are recorded; Socks5Trace.tla decides.

import (
	"context"
	"encoding/json"
	"fmt"
	"io"
	"math/rand"
	"net"
	"os"
	"strconv"
	"sync"
	"testing"
	"time"

	"github.com/v-byte-cpu/sx/pkg/scan"
)

type vfStep struct {
	Op      string `json:"op"` // send stall close reset flood
	B       int    `json:"b"`
	DelayMS int    `json:"delayMs"`
}

type vfSocksScen struct {
	Dial     string   `json:"dial"` // accept refuse
	Script   []vfStep `json:"script"`
	NoRead   bool     `json:"noRead"`   // the server does not read the greeting before replying
	CancelMS int      `json:"cancelMs"` // cancel the scan context after this long (0: never)
	// cancel the scan context from the server at the moment it accepts the connection (the window between the end of the
	// connect and the first deadline of the probe); the data timeout of these runs is long, so that "promptly" is measurable
	CancelOnAccept bool `json:"cancelOnAccept"`
	DataTMS        int  `json:"dataTMs"`
}

const (
	vfDialT = 250 * time.Millisecond
	vfDataT = 250 * time.Millisecond
)

type vfSocksSrv struct {
	ln   net.Listener
	mu   sync.Mutex
	next *vfSocksScen
	got  chan []int
	onAccept func()
}

func vfNewSocksSrv(t *testing.T) *vfSocksSrv {
	ln, err := net.Listen("tcp4", "127.0.0.1:0")
	if err != nil {
		t.Fatal(err)
	}
	s := &vfSocksSrv{ln: ln, got: make(chan []int, 1)}
	go func() {
		for {
			c, err := ln.Accept()
			if err != nil {
				return
			}
			s.mu.Lock()
			sc := s.next
			f := s.onAccept
			s.mu.Unlock()
			if f != nil {
				f()
			}
			go s.serve(c, sc)
		}
	}()
	return s
}

func (s *vfSocksSrv) serve(c net.Conn, sc *vfSocksScen) {
	defer c.Close()
	got := []int{}
	if !sc.NoRead {
		// read what the client sends first (up to 3 bytes, bounded wait)
		buf := make([]byte, 16)
		c.SetReadDeadline(time.Now().Add(2 * time.Second))
		n, _ := io.ReadAtLeast(c, buf, 3)
		for _, b := range buf[:n] {
			got = append(got, int(b))
		}
	}
	s.got <- got
	for _, st := range sc.Script {
		if st.DelayMS > 0 {
			time.Sleep(time.Duration(st.DelayMS) * time.Millisecond)
		}
		switch st.Op {
		case "send":
			c.Write([]byte{byte(st.B)})
		case "flood":
			junk := make([]byte, 4096)
			for i := range junk {
				junk[i] = byte(st.B)
			}
			for k := 0; k < 64; k++ {
				if _, err := c.Write(junk); err != nil {
					break
				}
			}
		case "stall":
			time.Sleep(4 * vfDataT)
			return
		case "close":
			return
		case "reset":
			if tc, ok := c.(*net.TCPConn); ok {
				tc.SetLinger(0)
			}
			return
		}
	}
	// script exhausted: the server stalls (keeps the connection open, silent)
	time.Sleep(4 * vfDataT)
}

func vfRunSocks(srv *vfSocksSrv, closedPort int, sc *vfSocksScen, id int) map[string]interface{} {
	script := sc.Script
	if script == nil {
		script = []vfStep{}
	}
	port := srv.ln.Addr().(*net.TCPAddr).Port
	if sc.Dial == "refuse" {
		port = closedPort
	}
	srv.mu.Lock()
	srv.next = sc
	srv.mu.Unlock()
	// drain a stale report
	select {
	case <-srv.got:
	default:
	}
	dataT := vfDataT
	if sc.DataTMS > 0 {
		dataT = time.Duration(sc.DataTMS) * time.Millisecond
	}
	s := NewScanner(WithDialTimeout(vfDialT), WithDataTimeout(dataT))
	ctx, cancel := context.WithCancel(context.Background())
	defer cancel()
	if sc.CancelMS > 0 {
		time.AfterFunc(time.Duration(sc.CancelMS)*time.Millisecond, cancel)
	}
	var cancelAt time.Time
	srv.mu.Lock()
	srv.onAccept = nil
	if sc.CancelOnAccept {
		srv.onAccept = func() { cancelAt = time.Now(); cancel() }
	}
	srv.mu.Unlock()
	req := &scan.Request{DstIP: net.IPv4(127, 0, 0, 1).To4(), DstPort: uint16(port)}
	t0 := time.Now()
	res, err := s.Scan(ctx, req)
	dur := time.Since(t0)
	ev := map[string]interface{}{"ev": "Probe", "id": id, "dial": sc.Dial, "script": script, "noRead": sc.NoRead, "cancelMs": sc.CancelMS,
		"durMs": int(dur / time.Millisecond), "dataT": int(dataT / time.Millisecond), "cancelOnAccept": sc.CancelOnAccept, "dialT": int(vfDialT / time.Millisecond),
		"target": map[string]interface{}{"ip": []int{127, 0, 0, 1}, "port": port}, "rec": map[string]interface{}{"ip": []int{0, 0, 0, 0}, "port": 0, "scan": "", "version": 0},
		"got": []int{-1}}
	if sc.CancelOnAccept {
		srv.mu.Lock()
		srv.onAccept = nil
		srv.mu.Unlock()
		if cancelAt.IsZero() {
			ev["cancelMs"] = 0 // never accepted
		} else {
			ev["cancelMs"] = int(cancelAt.Sub(t0)/time.Millisecond) + 1
		}
	}
	switch {
	case err != nil:
		ev["result"] = "error"
		ev["errText"] = err.Error()
	case res == nil:
		ev["result"] = "none"
	default:
		ev["result"] = "hit"
		b, _ := res.MarshalJSON()
		var rec struct {
			Scan    string `json:"scan"`
			Version int    `json:"version"`
			IP      string `json:"ip"`
			Port    int    `json:"port"`
		}
		json.Unmarshal(b, &rec)
		ip4 := net.ParseIP(rec.IP).To4()
		if ip4 == nil {
			ip4 = net.IP{0, 0, 0, 0}
		}
		ev["rec"] = map[string]interface{}{"ip": []int{int(ip4[0]), int(ip4[1]), int(ip4[2]), int(ip4[3])}, "port": rec.Port, "scan": rec.Scan, "version": rec.Version}
	}
	if sc.Dial == "accept" {
		select {
		case g := <-srv.got:
			ev["got"] = g
		case <-time.After(3 * time.Second):
		}
	}
	return ev
}

func TestVfSocks(t *testing.T) {
	out := vfOpenOut(t, "VF_OUT")
	defer out.close()
	seed, _ := strconv.ParseInt(os.Getenv("VERIF_SEED"), 10, 64)
	nreplies, _ := strconv.Atoi(os.Getenv("VF_REPLIES")) // 65536: the whole table
	srv := vfNewSocksSrv(t)
	defer srv.ln.Close()
	// a port that refuses connections
	l2, _ := net.Listen("tcp4", "127.0.0.1:0")
	closedPort := l2.Addr().(*net.TCPAddr).Port
	l2.Close()
	id := 0
	emit := func(sc *vfSocksScen) {
		id++
		out.write([]map[string]interface{}{vfRunSocks(srv, closedPort, sc, id)})
	}
	// (R) scripts from the specification
	if p := os.Getenv("VF_SCENARIOS"); p != "" {
		vfReadNDJSON(t, p, func(raw json.RawMessage) {
			var sc vfSocksScen
			if err := json.Unmarshal(raw, &sc); err != nil {
				t.Fatal(err)
			}
			emit(&sc)
		})
	}
	if os.Getenv("VF_ONLY_SCEN") != "" { // re-run of single scenarios (confirmation of a rejection)
		return
	}
	rnd := rand.New(rand.NewSource(seed*1299709 + 3))
	// reply table: two-byte replies, in one segment / split across segments / with extra bytes
	pairs := [][2]int{}
	if nreplies >= 65536 {
		for a := 0; a < 256; a++ {
			for b := 0; b < 256; b++ {
				pairs = append(pairs, [2]int{a, b})
			}
		}
	} else {
		for x := 0; x < 256; x++ { // the neighbours of 05 00
			pairs = append(pairs, [2]int{5, x}, [2]int{x, 0})
		}
		for len(pairs) < nreplies {
			pairs = append(pairs, [2]int{rnd.Intn(256), rnd.Intn(256)})
		}
	}
	for i, pr := range pairs {
		sc := &vfSocksScen{Dial: "accept", Script: []vfStep{{Op: "send", B: pr[0]}, {Op: "send", B: pr[1]}}}
		switch i % 7 {
		case 1:
			sc.Script[1].DelayMS = 15 // split across segments
		case 2:
			sc.Script = append(sc.Script, vfStep{Op: "send", B: rnd.Intn(256)}, vfStep{Op: "close"}) // extra bytes
		case 3:
			sc.Script = append(sc.Script, vfStep{Op: "close"})
		case 4:
			sc.NoRead = true // the server answers without reading the greeting
		}
		emit(sc)
	}
	// slow but legal servers, floods, cancellation
	emit(&vfSocksScen{Dial: "accept", Script: []vfStep{{Op: "send", B: 5, DelayMS: 180}, {Op: "send", B: 0, DelayMS: 180}}})
	emit(&vfSocksScen{Dial: "accept", Script: []vfStep{{Op: "send", B: 5, DelayMS: 200}}})
	emit(&vfSocksScen{Dial: "accept", Script: []vfStep{{Op: "flood", B: 5}}})
	emit(&vfSocksScen{Dial: "accept", Script: []vfStep{{Op: "flood", B: 0}}})
	for _, c := range []int{1, 20, 60, 120} {
		emit(&vfSocksScen{Dial: "accept", Script: []vfStep{}, CancelMS: c})
		emit(&vfSocksScen{Dial: "accept", Script: []vfStep{{Op: "send", B: 5}}, CancelMS: c})
	}
	for k := 0; k < 12; k++ {
		emit(&vfSocksScen{Dial: "accept", Script: []vfStep{}, CancelOnAccept: true, DataTMS: 2500})
		emit(&vfSocksScen{Dial: "accept", Script: []vfStep{{Op: "send", B: 5}}, CancelOnAccept: true, DataTMS: 2500})
	}
	fmt.Printf("VF_RUNS=%d\n", id)
}
