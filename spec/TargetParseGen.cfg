INIT Init
NEXT Next
