---------------------------- MODULE ReceiverGen ----------------------------
(* Scenario generation for C20 (specification -> implementation): every read-outcome *)
(* script up to GenLen, each with no cancellation and with cancellation issued from  *)
(* inside the k-th read for every k, written as NDJSON for the harness.              *)
EXTENDS Integers, Sequences, FiniteSets, TLC, Json, IOUtils, SequencesExt
Outcome == {"frame", "frameProcErr", "eagain", "timeout", "connreset", "unknown", "eof", "closed"}
GenLen == atoi(IOEnv.VF_GENLEN)
CancelLen == atoi(IOEnv.VF_CANCELLEN)
Scripts(n) == UNION {[1..k -> Outcome] : k \in 0..n}
Scen == {[script |-> s, cancelAt |-> 0] : s \in Scripts(GenLen)}
        \cup {[script |-> s, cancelAt |-> k] : s \in Scripts(CancelLen), k \in 1..(CancelLen + 1)}
ASSUME ndJsonSerialize(IOEnv.VF_OUT, SetToSeq(Scen))
ASSUME PrintT(<<"scenarios", Cardinality(Scen)>>)
VARIABLE x
Init == x = 0
Next == UNCHANGED x
=============================================================================
