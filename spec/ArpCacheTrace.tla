--------------------------- MODULE ArpCacheTrace ---------------------------
(* C11 binding, first half: ARP reply frames -> the real ARP processor -> the real JSON logger -> lines ->      *)
(* the real FillCache -> Cache.Get. Every printed line must be accepted by the loader and map exactly the        *)
(* sender address of the frame to its sender MAC, the last frame for an address winning; an address given in      *)
(* 4-byte or 16-byte form is the same key; an address that was never seen has no entry.                          *)
EXTENDS Integers, Sequences, FiniteSets, TLC, Json, IOUtils
Trace == ndJsonDeserialize(IOEnv.VERIF_TRACE)
VARIABLES l, expect, nlines, loadedOK, done
vars == <<l, expect, nlines, loadedOK, done>>
Ev == Trace[l]
Is(e) == l <= Len(Trace) /\ Ev.ev = e /\ l' = l + 1
NoEntry == <<>>
Init == l = 1 /\ expect = <<>> /\ nlines = 0 /\ loadedOK = FALSE /\ done = TRUE
Reset == Is("Reset") /\ done /\ expect' = <<>> /\ nlines' = 0 /\ loadedOK' = FALSE /\ done' = FALSE
\* expect: sequence of <<ip, mac>>; the last entry for an ip wins
Lookup(ip) == LET S == {i \in 1..Len(expect) : expect[i][1] = ip} IN IF S = {} THEN NoEntry ELSE expect[CHOOSE i \in S : \A j \in S : i >= j][2]
ArpFrame == Is("ArpFrame") /\ expect' = Append(expect, <<Ev.spa, Ev.sha>>) /\ UNCHANGED <<nlines, loadedOK, done>>
\* one line per reported frame
Lines == Is("Lines") /\ Ev.n = Len(expect) /\ nlines' = Ev.n /\ UNCHANGED <<expect, loadedOK, done>>
\* LineAccepted: the loader takes the ARP scan's own output
Loaded == Is("Loaded") /\ Ev.ok /\ loadedOK' = TRUE /\ UNCHANGED <<expect, nlines, done>>
Get == Is("Get") /\ loadedOK /\ Ev.mac = Lookup(Ev.ip) /\ UNCHANGED <<expect, nlines, loadedOK, done>>
End == Is("End") /\ loadedOK /\ done' = TRUE /\ UNCHANGED <<expect, nlines, loadedOK>>
Next == Reset \/ ArpFrame \/ Lines \/ Loaded \/ Get \/ End
TSpec == Init /\ [][Next]_vars
HighWater == TLCSet(1, IF l > TLCGet(1) THEN l ELSE TLCGet(1))
ASSUME TLCSet(1, 0)
TraceAccepted == IF TLCGet(1) = Len(Trace) + 1 THEN PrintT(<<"TRACE ACCEPTED", Len(Trace)>>)
                 ELSE Print(<<"REJECTED at event", TLCGet(1), Trace[TLCGet(1)]>>, FALSE)
=============================================================================
