---------------------------- MODULE MC_ScanRun ----------------------------
EXTENDS Integers, FiniteSets, Sequences, TLC
CONSTANTS Variant, AttachAtomic
VARIABLES c, phase, sentN, now, openT, lastSend, queue, out, hist, closeT, cancelled
CK == <<{"a", "b"}, {"c"}>>
Fr == {[k |-> "a", s |-> TRUE], [k |-> "c", s |-> TRUE], [k |-> "b", s |-> FALSE]}
AccM(f, ch) == f.s /\ f.k \in CK[ch]
RecM(f, ch) == f.k
INSTANCE ScanRun WITH ChunkKeys <- CK, Frames <- Fr, Acc <- AccM, Rec <- RecM, Delay <- 3, Lat <- 1, MaxT <- 9, InFlight <- 1
=============================================================================
