---- MODULE MC_RangeIter ----
EXTENDS RangeIter
MCTable == << <<3, 2, 1>>, <<5, 2, 1>>, <<11, 2, 3>>, <<17, 3, 3>>, <<37, 2, 5>> >>
====
