SPECIFICATION Spec
CONSTANTS MaxLen = 3 CapErr = 1 AllowCancel = TRUE
INVARIANTS Safe NoCancelExact ReadingContinues ClosedLast
PROPERTIES Ends CancelEnds ClosedIsSeen
CHECK_DEADLOCK FALSE
