SPECIFICATION Spec
CONSTANTS NIn = 2 NItems = 2 CapOut = 1 Bug = "none"
INVARIANTS NoPanic NoDupNoInvent AllDelivered
PROPERTIES Ends CancelEnds
CHECK_DEADLOCK FALSE
