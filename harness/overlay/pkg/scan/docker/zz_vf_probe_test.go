//go:build verif

package docker

// C10 harness (docker): the real docker.NewScanner(proto, WithDataTimeout).Scan against the scripted server
// (HEAD /_ping for API negotiation, GET /vX/info, GET /vX/version).

import (
	"context"
	"encoding/json"
	"fmt"
	"net"
	"os"
	"strings"
	"testing"
	"time"

	"github.com/v-byte-cpu/sx/pkg/scan"
)

type vfProbeScen struct {
	Probe string `json:"probe"`
	Ping  string `json:"ping"`
	R1    string `json:"r1"`
	R2    string `json:"r2"`
}

const vfT = 400 * time.Millisecond

func TestVfProbe(t *testing.T) {
	out := vfOpenOut(t, "VF_OUT")
	defer out.close()
	srvs := map[string]*vfHTTPSrv{"http": vfNewHTTPSrv(false, 20*vfT), "https": vfNewHTTPSrv(true, 20*vfT)}
	l2, _ := net.Listen("tcp4", "127.0.0.1:0")
	closedPort := l2.Addr().(*net.TCPAddr).Port
	l2.Close()
	n := 0
	vfReadNDJSON(t, os.Getenv("VF_SCENARIOS"), func(raw json.RawMessage) {
		var sc vfProbeScen
		if err := json.Unmarshal(raw, &sc); err != nil {
			t.Fatal(err)
		}
		if sc.Probe != "docker" {
			return
		}
		for _, proto := range []string{"http", "https"} {
			srv := srvs[proto]
			port := srv.port()
			if sc.Ping == "refuse" || (sc.Ping == "ok" && sc.R1 == "refuse") {
				if sc.Ping == "ok" {
					continue // a server cannot accept the ping and refuse the next connection on the same port
				}
				port = closedPort
			}
			if sc.R1 == "tlsfail" || sc.R2 == "tlsfail" || sc.R2 == "refuse" {
				continue
			}
			srv.set(func(m, p string) string {
				switch {
				case strings.HasSuffix(p, "/_ping"):
					if sc.Ping == "stallHeaders" {
						return "stallHeaders"
					}
					return "emptyObject"
				case strings.HasSuffix(p, "/info"):
					return sc.R1
				default:
					return sc.R2
				}
			})
			s := NewScanner(proto, WithDataTimeout(vfT))
			t0 := time.Now()
			res, err := s.Scan(context.Background(), &scan.Request{DstIP: net.IPv4(127, 0, 0, 1).To4(), DstPort: uint16(port)})
			dur := time.Since(t0)
			ev := map[string]interface{}{"ev": "Probe", "probe": "docker", "proto": proto, "ping": sc.Ping, "r1": sc.R1, "r2": sc.R2, "durMs": int(dur / time.Millisecond),
				"T": int(vfT / time.Millisecond), "target": fmt.Sprintf("tcp://127.0.0.1:%d", port), "recHost": "", "recProto": "", "recScan": "", "infoIsObject": false, "reqs": srv.requests()}
			switch {
			case err != nil:
				ev["result"] = "error"
				ev["errText"] = err.Error()
			case res == nil:
				ev["result"] = "none"
			default:
				ev["result"] = "hit"
				b, _ := res.MarshalJSON()
				var rec struct {
					Scan  string          `json:"scan"`
					Proto string          `json:"proto"`
					Host  string          `json:"host"`
					Info  json.RawMessage `json:"info"`
				}
				json.Unmarshal(b, &rec)
				ev["recHost"], ev["recProto"], ev["recScan"] = rec.Host, rec.Proto, rec.Scan
				ev["infoIsObject"] = len(rec.Info) > 0 && rec.Info[0] == '{'
			}
			out.write([]map[string]interface{}{ev})
			n++
		}
	})
	fmt.Printf("VF_RUNS=%d\n", n)
}
