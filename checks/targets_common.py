"""Shared by C01 / C02 / C11 / C13: TLC-generated target specifications run through the real request-generation stack."""
import json
import os
import random
import vf


def cmd_for(s, i):
    m = s["mode"]
    if m == "hosts":
        return "icmp" if (s["useMac"] or i % 2) else "arp"
    if m == "filehosts":
        return "icmp"
    opts = ["tcp", "udp"] + ([] if s["useMac"] else ["socks"])
    return opts[i % len(opts)]


def abstract_scenarios(ctx, naddr, nport, maxlines, modes, sample, want=None):
    """all well-formed target specifications over the abstract universe from TLC (TargetsGen), filtered by mode, sampled"""
    out = os.path.join(ctx.scratch, "tg-%d-%d-%d.ndjson" % (naddr, nport, maxlines))
    if not os.path.exists(out):
        r = ctx.tlc("TargetsGen", env={"VF_NADDR": naddr, "VF_NPORT": nport, "VF_MAXLINES": maxlines, "VF_OUT": out}, workers=1, timeout=1800, xmx="8g")
        if not r.no_error:
            raise vf.Inconclusive("TargetsGen failed:\n" + r.out[-2000:])
    sc = [json.loads(l) for l in open(out)]
    total = len(sc)
    sc = [s for s in sc if s["mode"] in modes and (want is None or want(s))]
    rnd = random.Random(ctx.seed * 7 + naddr)
    if sample and len(sc) > sample:
        small = [s for s in sc if len(s["file"]) <= 1]
        rest = [s for s in sc if len(s["file"]) > 1]
        if len(small) > sample // 2:
            small = rnd.sample(small, sample // 2)
        sc = small + rnd.sample(rest, min(len(rest), sample - len(small)))
    for i, s in enumerate(sc):
        s["id"] = i + 1
        s["cmd"] = cmd_for(s, i)
    return sc, total


def run_parallel(ctx, test, scenarios, label, procs=8):
    binary = ctx.go_build_test("./command")
    envs = []
    for k in range(procs):
        part = scenarios[k::procs]
        if not part:
            continue
        sp = os.path.join(ctx.scratch, "%s-scen-%d.ndjson" % (label, k))
        vf.write_ndjson(sp, part)
        envs.append({"VF_SCENARIOS": sp, "VF_OUT": os.path.join(ctx.scratch, "%s-out-%d.ndjson" % (label, k)), "VERIF_SEED": ctx.seed})
    res = vf.go_run_many(ctx, binary, test, envs, timeout=2400)
    events = []
    for (rc, out), e in zip(res, envs):
        if os.path.exists(e["VF_OUT"]):
            events += vf.read_ndjson(e["VF_OUT"])
        if rc != 0:
            ce = vf.crash_events(ctx, rc, out, label)
            events += [dict(ce[0], ev="Reset", mode="pairs", file=[], ports=[], excl=[], cache=[], gw=True, useFilter=False, useMac=False, id=0, cmd="crash"), ce[1]]
    trace = os.path.join(ctx.scratch, label + "-all.ndjson")
    vf.write_ndjson(trace, events)
    return trace


def target_key(run, evt):
    r0 = run[0]
    return "targets:%s:%s:%s:%s" % (r0.get("mode"), evt.get("ev"), evt.get("k", ""), evt.get("cause", ""))


def denote_runs(ctx, full):
    out = os.path.join(ctx.scratch, "dn-scen.ndjson")
    r = ctx.tlc("DenoteGen", env={"VF_FULL": "1" if full else "0", "VF_OUT": out}, workers=1, timeout=900)
    if not r.no_error:
        raise vf.Inconclusive("DenoteGen failed:\n" + r.out[-2000:])
    sc = [json.loads(l) for l in open(out)]
    for i, s in enumerate(sc):
        s["id"] = i + 1
        s["cmd"] = ("arp" if i % 2 else "icmp") if not s["ranges"] else ("tcp" if i % 2 else "socks")
    return sc


def validate_denote(ctx, trace, pid, label):
    """TargetsCheck over a file of Run records; on rejection the offending run is reported and removed"""
    runs = vf.read_ndjson(trace)
    for c in [r for r in runs if r.get("ev") == "Crash"]:
        # the harness process died in the code under test (panic / data race with a frame of /repo on the stack)
        ctx.violation("%s:denote:crash:%s" % (pid, c.get("kind")), "the generators crashed while producing the requests of a concrete target: %s %s" %
                      (c.get("text"), c.get("frames")), replay={"property": pid, "trace_spec": "TargetsCheck", "run": [c]})
    runs = [r for r in runs if r.get("ev") == "Run"]
    ctx.cov["traces_validated_against_impl"] += len(runs)
    ctx.count(len(runs), [("denote", r["id"], r["cmd"]) for r in runs])
    reports = 0
    while runs:
        p = os.path.join(ctx.scratch, label + "-check.ndjson")
        vf.write_ndjson(p, runs)
        ok, info = ctx.tlc_trace("TargetsCheck", p, timeout=1800)
        if ok or reports >= 5:
            break
        bad = runs[info["index"] - 1]
        ctx.violation("%s:denote:%s:%s" % (pid, bad["cmd"], bad["targetText"]),
                      "the probes generated for %s ports=%s exclude=%s (%s) are not Denote(target): histogram differs (missing, extra, repeated or excluded "
                      "addresses/ports)" % (bad["targetText"], json.dumps(bad["target"]["ranges"]), json.dumps(bad["target"]["exclude"]), bad["cmd"]),
                      replay={"property": pid, "trace_spec": "TargetsCheck", "run": [bad]})
        reports += 1
        del runs[info["index"] - 1]
    return len(runs)
