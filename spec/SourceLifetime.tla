--------------------------- MODULE SourceLifetime ---------------------------
(* pkg/packet/afpacket.Source against the receiver goroutine of one scan pass (finding F17).                           *)
(* startPacketScanEngine closes the source as soon as startScanEngine has returned; the receiver goroutine of that pass   *)
(* only looks at the cancelled context between two reads, and a read sits in poll(2). Close unmaps the ring buffer the   *)
(* read (and, with zero-copy reads, the processing of the packet) works on.                                               *)
(*   Locked      reads hold a read lock for their duration, Close takes the lock exclusively and sets a closed flag       *)
(*   Copying     a read copies the packet out of the ring before it returns (otherwise the processor works on the ring)   *)
(*   PollTimeout poll(2) returns after a bounded time without a packet (returned as EAGAIN, the receiver retries)         *)
(* As found all three are FALSE: NoFault fails. The repair needs all three: without Copying the processor still touches   *)
(* the ring after the lock is released (NoFault fails), without PollTimeout a reader parked in poll holds the read lock    *)
(* for ever and Close never returns (CloseTerminates fails).                                                              *)
EXTENDS Integers, TLC
CONSTANTS Locked, Copying, PollTimeout, MaxFrames
VARIABLES rd,          \* receiver: "top" | "polling" | "copying" | "processing" | "stopped"
          rlocked,     \* the receiver holds the read lock
          cl,          \* closer: "idle" | "waiting" | "done"
          mapped, closedFlag, ctxDone, avail, arrived, fault
vars == <<rd, rlocked, cl, mapped, closedFlag, ctxDone, avail, arrived, fault>>
Init == rd = "top" /\ rlocked = FALSE /\ cl = "idle" /\ mapped = TRUE /\ closedFlag = FALSE /\ ctxDone = FALSE /\ avail = 0 /\ arrived = 0 /\ fault = FALSE
\* environment
Arrive == arrived < MaxFrames /\ mapped /\ arrived' = arrived + 1 /\ avail' = avail + 1 /\ UNCHANGED <<rd, rlocked, cl, mapped, closedFlag, ctxDone, fault>>
Cancel == ~ctxDone /\ ctxDone' = TRUE /\ UNCHANGED <<rd, rlocked, cl, mapped, closedFlag, avail, arrived, fault>>
\* receiver loop (receiver.go) around Source.ReadPacketData
Top == /\ rd = "top"
       /\ IF ctxDone THEN rd' = "stopped" /\ UNCHANGED rlocked
          ELSE IF Locked THEN /\ cl # "waiting"                    \* a pending writer blocks new readers (sync.RWMutex)
                              /\ IF closedFlag THEN rd' = "stopped" /\ UNCHANGED rlocked          \* io.EOF: unrecoverable, the receiver ends
                                 ELSE rd' = "polling" /\ rlocked' = TRUE
          ELSE rd' = "polling" /\ UNCHANGED rlocked
       /\ UNCHANGED <<cl, mapped, closedFlag, ctxDone, avail, arrived, fault>>
\* poll(2) returns because a packet is there ...
PollWake == /\ rd = "polling" /\ avail > 0 /\ mapped /\ rd' = "copying"
            /\ UNCHANGED <<rlocked, cl, mapped, closedFlag, ctxDone, avail, arrived, fault>>
\* ... or because the timeout expired: EAGAIN, lock released, the receiver retries
PollExpire == /\ rd = "polling" /\ PollTimeout /\ avail = 0 /\ rd' = "top" /\ rlocked' = FALSE
              /\ UNCHANGED <<cl, mapped, closedFlag, ctxDone, avail, arrived, fault>>
\* the read looks at the ring (frame header, packet bytes)
Copy == /\ rd = "copying" /\ avail' = avail - 1
        /\ fault' = (fault \/ ~mapped)
        /\ rd' = "processing" /\ rlocked' = FALSE                   \* ReadPacketData returns: deferred RUnlock
        /\ UNCHANGED <<cl, mapped, closedFlag, ctxDone, arrived>>
\* ProcessPacketData works on the slice it was given: the ring itself unless the read copied
Process == /\ rd = "processing" /\ fault' = (fault \/ (~Copying /\ ~mapped)) /\ rd' = "top"
           /\ UNCHANGED <<rlocked, cl, mapped, closedFlag, ctxDone, avail, arrived>>
\* startPacketScanEngine: defer ps.Close() after the scan call returned (which it does as soon as the context is cancelled)
CloseBegin == /\ cl = "idle" /\ ctxDone /\ cl' = "waiting"
              /\ UNCHANGED <<rd, rlocked, mapped, closedFlag, ctxDone, avail, arrived, fault>>
CloseUnmap == /\ cl = "waiting" /\ (Locked => ~rlocked)
              /\ mapped' = FALSE /\ closedFlag' = TRUE /\ cl' = "done"
              /\ UNCHANGED <<rd, rlocked, ctxDone, avail, arrived, fault>>
Next == Arrive \/ Cancel \/ Top \/ PollWake \/ PollExpire \/ Copy \/ Process \/ CloseBegin \/ CloseUnmap
Fair == WF_vars(Top) /\ WF_vars(PollWake) /\ WF_vars(PollExpire) /\ WF_vars(Copy) /\ WF_vars(Process) /\ WF_vars(CloseBegin) /\ WF_vars(CloseUnmap) /\ WF_vars(Cancel)
Spec == Init /\ [][Next]_vars /\ Fair
NoFault == ~fault
CloseTerminates == <>(cl = "done")
ReaderStops == <>[](rd = "stopped")
=============================================================================
