------------------------------ MODULE OptionsGen ------------------------------
(* Input vectors for C18 (specification -> implementation), written as NDJSON: every string up to a length over a  *)
(* small alphabet for the port grammar, boundary numerals, every subset / order / letter case of the flag names,     *)
(* rates from the canonical family and around it, payload escapes and the canonical rendering of byte strings.       *)
EXTENDS Options, Json, IOUtils
Full == IOEnv.VF_FULL = "1"
Strs(A, n) == UNION {[1..k -> A] : k \in 0..n}
BigNums == { <<"1">>, <<"4", "4", "3">>, <<"6", "5", "5", "3", "5">>, <<"6", "5", "5", "3", "6">>, <<"6", "5", "5", "3", "7">>, <<"6", "5", "6", "1", "6">>, <<"7", "0", "0", "0", "0">>,
             <<"1", "3", "1", "0", "7", "2">>, <<"9", "9", "9", "9", "9">>, <<"4", "2", "9", "4", "9", "6", "7", "2", "9", "6">>, <<"4", "2", "9", "4", "9", "6", "7", "3", "7", "6">> }
PortAlpha == {"0", "1", "5", "6", "9", "-", ",", " ", "x"}
PortStrs == Strs(PortAlpha, IF Full THEN 5 ELSE 4)
   \cup { <<"6", "5", "5", "3", "5">>, <<"6", "5", "5", "3", "6">>, <<"0", "-", "6", "5", "5", "3", "5">>, <<"1", "-", "2", "-", "3">>, <<"8", "0", ",", "4", "4", "3">>,
          <<"0", "8", "0">>, <<"+", "8", "0">>, <<"4", "2", "9", "4", "9", "6", "7", "2", "9", "6">>, <<"8", "0", "-">>, <<"-", "8", "0">>, <<"8", "0", ",">>,
          <<"1", "8", "4", "4", "6", "7", "4", "4", "0", "7", "3", "7", "0", "9", "5", "5", "1", "6", "1", "6">>, <<"2", "2", "-", "2", "5", ",", "8", "0", "-", "8", "0">> }
   \* boundary numerals in either position of a range
   \cup {a \o <<"-">> \o b : a \in BigNums, b \in BigNums} \cup {a \o <<",">> \o b : a \in BigNums, b \in BigNums}
Names == {<<"f", "i", "n">>, <<"s", "y", "n">>, <<"r", "s", "t">>, <<"p", "s", "h">>, <<"a", "c", "k">>, <<"u", "r", "g">>, <<"e", "c", "e">>, <<"c", "w", "r">>, <<"n", "s">>}
Upper(c) == CASE c = "a" -> "A" [] c = "c" -> "C" [] c = "d" -> "D" [] c = "e" -> "E" [] c = "f" -> "F" [] c = "g" -> "G" [] c = "h" -> "H" [] c = "i" -> "I"
              [] c = "k" -> "K" [] c = "l" -> "L" [] c = "m" -> "M" [] c = "n" -> "N" [] c = "p" -> "P" [] c = "r" -> "R" [] c = "s" -> "S" [] c = "t" -> "T"
              [] c = "u" -> "U" [] c = "v" -> "V" [] c = "w" -> "W" [] c = "y" -> "Y" [] OTHER -> c
UpperS(s) == [i \in 1..Len(s) |-> Upper(s[i])]
Mixed(s) == [i \in 1..Len(s) |-> IF i % 2 = 1 THEN Upper(s[i]) ELSE s[i]]
Join(q) == IF q = <<>> THEN <<>> ELSE FoldLeft(LAMBDA acc, x : acc \o <<",">> \o x, q[1], Tail(q))
\* every subset of the nine names, in ascending, descending and one rotated order, in lower / upper / mixed case
Orders(S) == LET q == SetToSeq(S) IN {q, Reverse(q)} \cup (IF Len(q) > 2 THEN {Tail(q) \o <<Head(q)>>} ELSE {})
TcpFlagStrs == UNION {{Join(o), Join([i \in 1..Len(o) |-> UpperS(o[i])]), Join([i \in 1..Len(o) |-> Mixed(o[i])])} : o \in UNION {Orders(S) : S \in SUBSET Names}}
   \cup { <<"s", "y", "n", ",">>, <<",", "s", "y", "n">>, <<"s", "y", "n", ",", ",", "a", "c", "k">>, <<" ", "s", "y", "n">>, <<"s", "y", "n", " ">>, <<"s", "y">>, <<"x">>, <<"s", "y", "n", ",", "s", "y", "n">>,
          <<"s", "y", "n", ";", "a", "c", "k">>, <<"a", "l", "l">> }
IpNames == {<<"d", "f">>, <<"m", "f">>, <<"e", "v", "i", "l">>}
IpFlagStrs == UNION {{Join(o), Join([i \in 1..Len(o) |-> UpperS(o[i])]), Join([i \in 1..Len(o) |-> Mixed(o[i])])} : o \in UNION {Orders(S) : S \in SUBSET IpNames}}
   \cup { <<"d", "f", ",">>, <<",">>, <<"d">>, <<"d", "f", " ">>, <<"d", "f", ",", "d", "f">>, <<"x", "f">>, <<"d", "f", ",", "x">> }
RateAlpha == {"0", "1", "7", "/", "s", "m", "h"}
RateStrs == Strs(RateAlpha, IF Full THEN 5 ELSE 4)
   \cup { <<"1", "0", "0", "0", "/", "s">>, <<"5", "0", "0", "/", "7", "s">>, <<"2", "0", "/", "1", "0", "0", "m", "s">>, <<"1", "/", "2", "0", "0", "m", "s">>, <<"1", "0", "0", "0">>,
          <<"7", "/", "5", "0", "0", "u", "s">>, <<"7", "/", "n", "s">>, <<"-", "1", "/", "s">>, <<"+", "1", "/", "s">>, <<"1", "/", "-", "1", "s">>, <<"1", "/", "s", "/", "s">>, <<"a", "/", "s">>, <<"1", "/", "x">>,
          <<"2", "1", "4", "7", "4", "8", "3", "6", "4", "7">>, <<"2", "1", "4", "7", "4", "8", "3", "6", "4", "8">>, <<"9", "9", "9", "9", "9", "9", "9", "9", "9", "9", "9">>, <<"1", "/", "1", ".", "5", "s">>,
          <<"1", "/", "1", "m", "3", "0", "s">>, <<" ", "1", "/", "s">>, <<"1", "/", " ", "s">>, <<"0", "1", "0", "/", "0", "5", "s">> }
PayAlpha == {"a", "\\", "x", "0", "7", "n", "\"", "u", "4", "f", "'", "q"}
Bytes12 == {0, 1, 9, 10, 13, 34, 39, 92, 97, 127, 128, 255}
PayloadStrs == Strs(PayAlpha, IF Full THEN 5 ELSE 4)
   \cup {RenderPayload(<<b>>) : b \in 0..255} \cup {RenderPayload(<<a, b>>) : a \in Bytes12, b \in Bytes12}
   \cup { <<"\\", "u", "0", "0", "4", "1">>, <<"\\", "u", "0", "4", "f", "f">>, <<"\\", "u", "f", "f", "f", "f">>, <<"\\", "u", "d", "8", "0", "0">>, <<"\\", "3", "7", "7">>, <<"\\", "4", "0", "0">>,
          <<"\\", "0", "0", "0">>, <<"\\", "t", "\\", "r", "\\", "v", "\\", "a", "\\", "b", "\\", "f">>, <<"a", "b", "c", " ", "%", "-", "/", "#", "!">>, <<"\\", "x", "F", "f">>, <<"\\", "X", "4", "1">>, <<"\\", "U", "0", "0", "0", "0", "0", "0", "4", "1">> }
Vec(w, S) == {[which |-> w, chars |-> s] : s \in S}
\* files: sequences of lines
L(str) == str
PortsFiles == { <<>>, << <<"8", "0">> >>, << <<"8", "0">>, <<"2", "2", "-", "2", "5">> >>, << <<"#", " ", "c">>, <<>>, <<" ", "8", "0", " ">>, <<"4", "4", "3", " ", "#", "x">> >>,
                << <<"8", "0">>, <<"x">> >>, << <<"8", "0">>, <<"1", "-", "2", "-", "3">> >>, << <<"0", "8", "0">> >>, << <<"6", "5", "5", "3", "6">> >>, << <<"#">> >>, << <<" ">>, <<" ", " ">> >>,
                << <<"8", "0", ",", "8", "1">> >> }
All == Vec("ports", PortStrs) \cup Vec("tcpflags", TcpFlagStrs) \cup Vec("ipflags", IpFlagStrs) \cup Vec("rate", RateStrs) \cup Vec("payload", PayloadStrs)
FileVecs == {[which |-> "portsfile", lines |-> f, longAt |-> 0] : f \in PortsFiles}
              \cup {[which |-> "portsfile", lines |-> <<>>, longAt |-> 0, big |-> n] : n \in {700, 1500}}     \* harness writes n lines 10000, 10001, ...
              \cup {[which |-> "portsfile", lines |-> f, longAt |-> k] : f \in {<< <<"8", "0">>, <<"8", "1">> >>, << <<"8", "0">> >>}, k \in 1..2}   \* harness inserts a 70 000 character line at position k
ASSUME PrintT(<<"vectors", Cardinality(All) + Cardinality(FileVecs)>>)
ASSUME LET S == SetToSeq(All) IN ndJsonSerialize(IOEnv.VF_OUT, S)
ASSUME LET S == SetToSeq(FileVecs) IN ndJsonSerialize(IOEnv.VF_OUT2, S)
VARIABLE x
Init == x = 0
Next == UNCHANGED x
==============================================================================
