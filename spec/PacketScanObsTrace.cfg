SPECIFICATION TSpec
CONSTANTS R = 100000
CONSTRAINT HighWater
INVARIANT CompleteAtEnd
POSTCONDITION TraceAccepted
CHECK_DEADLOCK FALSE
