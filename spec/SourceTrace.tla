----------------------------- MODULE SourceTrace -----------------------------
(* The real afpacket.Source under the real receiver (C20, C03 attach window, finding F17; the design is SourceLifetime.tla):           *)
(*   - only datagrams sent after the filter was attached are processed, each once, in order;                                          *)
(*   - nothing is reported as an error: poll timeouts on a quiet wire are retried silently, a closed source ends the receiver;         *)
(*   - Close returns within the poll timeout (plus slack), also while traffic is flowing and a read is in progress;                    *)
(*   - the receiver ends after Close whether or not its context was cancelled;                                                         *)
(*   - what was sent well before the end has been processed; reads and writes after Close fail.                                        *)
EXTENDS Integers, Sequences, FiniteSets, TLC, Json, IOUtils
Trace == ndJsonDeserialize(IOEnv.VERIF_TRACE)
CloseBound == 2500000       \* "bounded": far above any sensible poll timeout (the code's is 100 ms), far below a hang (microseconds)
EndBound == 4000000
Settle == 150000
VARIABLES l, attached, after, sentT, procd, lastProc, stopT, closeT, closed, ended, tail
vars == <<l, attached, after, sentT, procd, lastProc, stopT, closeT, closed, ended, tail>>
Ev == Trace[l]
Is(e) == l <= Len(Trace) /\ Ev.ev = e /\ l' = l + 1
Init == l = 1 /\ attached = FALSE /\ after = {} /\ sentT = <<>> /\ procd = {} /\ lastProc = 0 /\ stopT = -1 /\ closeT = -1 /\ closed = FALSE /\ ended = TRUE /\ tail = TRUE
Reset == /\ Is("Reset") /\ ended /\ tail
         /\ attached' = FALSE /\ after' = {} /\ sentT' = <<>> /\ procd' = {} /\ lastProc' = 0 /\ stopT' = -1 /\ closeT' = -1 /\ closed' = FALSE /\ ended' = FALSE /\ tail' = FALSE
\* datagrams carry consecutive sequence numbers
Sent == /\ Is("Sent") /\ Ev.seq = Len(sentT) + 1 /\ sentT' = Append(sentT, Ev.t)
        /\ after' = (IF attached THEN after \cup {Ev.seq} ELSE after)
        /\ UNCHANGED <<attached, procd, lastProc, stopT, closeT, closed, ended, tail>>
Attach == Is("Attach") /\ ~attached /\ attached' = TRUE /\ UNCHANGED <<after, sentT, procd, lastProc, stopT, closeT, closed, ended, tail>>
\* a processed datagram was sent after the attach, is new, and comes in order
Proc == /\ Is("Proc") /\ ~ended /\ Ev.seq \in after /\ Ev.seq \notin procd /\ Ev.seq > lastProc
        /\ procd' = procd \cup {Ev.seq} /\ lastProc' = Ev.seq
        /\ UNCHANGED <<attached, after, sentT, stopT, closeT, closed, ended, tail>>
Cancel == Is("Cancel") /\ stopT' = (IF stopT = -1 THEN Ev.t ELSE stopT) /\ UNCHANGED <<attached, after, sentT, procd, lastProc, closeT, closed, ended, tail>>
CloseCalled == /\ Is("CloseCalled") /\ closeT = -1 /\ closeT' = Ev.t /\ stopT' = (IF stopT = -1 THEN Ev.t ELSE stopT)
               /\ UNCHANGED <<attached, after, sentT, procd, lastProc, closed, ended, tail>>
CloseReturned == /\ Is("CloseReturned") /\ closeT # -1 /\ ~closed /\ Ev.t <= closeT + CloseBound /\ closed' = TRUE
                 /\ UNCHANGED <<attached, after, sentT, procd, lastProc, stopT, closeT, ended, tail>>
\* the receiver ends only because of the cancellation or the close, soon after, and has by then processed everything that was sent
\* well before
ReceiverEnded == /\ Is("ReceiverEnded") /\ ~ended /\ stopT # -1 /\ Ev.t <= closeT + EndBound
                 /\ \A s \in after : sentT[s] + Settle < stopT => s \in procd
                 /\ ended' = TRUE
                 /\ UNCHANGED <<attached, after, sentT, procd, lastProc, stopT, closeT, closed, tail>>
AfterClose == /\ Is("AfterClose") /\ ended /\ closed /\ Ev.readFails /\ Ev.writeFails /\ tail' = TRUE
              /\ UNCHANGED <<attached, after, sentT, procd, lastProc, stopT, closeT, closed, ended>>
\* ErrSeen and Hang have no action: a reported error or a hang rejects the run
Next == Reset \/ Sent \/ Attach \/ Proc \/ Cancel \/ CloseCalled \/ CloseReturned \/ ReceiverEnded \/ AfterClose
TSpec == Init /\ [][Next]_vars
HighWater == TLCSet(1, IF l > TLCGet(1) THEN l ELSE TLCGet(1))
ASSUME TLCSet(1, 0)
TraceAccepted == IF TLCGet(1) = Len(Trace) + 1 THEN PrintT(<<"TRACE ACCEPTED", Len(Trace)>>)
                 ELSE Print(<<"REJECTED at event", TLCGet(1), Trace[TLCGet(1)]>>, FALSE)
==============================================================================
