SPECIFICATION Spec
CONSTANTS
  Locked = TRUE
  Copying = FALSE
  PollTimeout = TRUE
  MaxFrames = 3
INVARIANT NoFault
CHECK_DEADLOCK FALSE
