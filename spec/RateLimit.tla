------------------------------ MODULE RateLimit ------------------------------
(* packet.rateLimitReadWriter / scan.rateLimitScanner in front of go.uber.org/ratelimit v0.2.0  *)
(* (atomic limiter): explicit time, one sender goroutine (packet path).                         *)
EXTENDS Integers, Sequences, TLC
CONSTANTS Per,     \* ticks per request = window / count
          B,       \* slack, in requests (library default 10)
          K,       \* probes
          MaxT, MaxSend,
          MaxLate  \* how late after its scheduled time a probe may actually leave (scheduler / timer slack)
VARIABLES now, last, sleepFor, pc, wake, sends, takes
vars == <<now, last, sleepFor, pc, wake, sends, takes>>
Init == now = 0 /\ last = -1 /\ sleepFor = 0 /\ pc = "take" /\ wake = 0 /\ sends = <<>> /\ takes = 0
Max(a, b) == IF a > b THEN a ELSE b
Take == /\ pc = "take" /\ Len(sends) < K /\ takes' = takes + 1
        /\ IF last = -1
           THEN last' = now /\ wake' = now /\ UNCHANGED sleepFor
           ELSE LET s0 == sleepFor + Per - (now - last)
                    s1 == Max(s0, -(B * Per)) IN
                IF s1 > 0 THEN last' = now + s1 /\ wake' = now + s1 /\ sleepFor' = 0
                          ELSE last' = now /\ wake' = now /\ sleepFor' = s1
        /\ pc' = "sleep" /\ UNCHANGED <<now, sends>>
Wake == /\ pc = "sleep" /\ now >= wake /\ pc' = "send" /\ sends' = Append(sends, now) /\ wake' = now    \* the probe leaves
        /\ UNCHANGED <<now, last, sleepFor, takes>>
SendDone == /\ pc = "send" /\ now - wake <= MaxSend /\ pc' = "take" /\ UNCHANGED <<now, last, sleepFor, wake, sends, takes>>
Tick == /\ now < MaxT /\ (pc = "sleep" => now < wake + MaxLate) /\ now' = now + 1 /\ UNCHANGED <<last, sleepFor, pc, wake, sends, takes>>
Next == Take \/ Wake \/ SendDone \/ Tick
Spec == Init /\ [][Next]_vars
ChargedOnce == takes = Len(sends) + (IF pc \in {"sleep"} THEN 1 ELSE 0)
Spacing == \A i, j \in 1..Len(sends) : i < j => sends[j] - sends[i] >= (j - i - B) * Per - MaxLate
SpacingTight == \A i, j \in 1..Len(sends) : i < j => sends[j] - sends[i] >= (j - i - B + 1) * Per - MaxLate   \* expected to FAIL
==============================================================================
