"""C09 — SOCKS5 probe: reported iff the server answers 05 00; always time-bounded.
Spec: Socks5.tla (client machine against a scripted server, timers counted; TLC exhaustive over all scripts and cancel points),
Socks5Trace.tla (what the real socks5.Scanner.Scan did against scripted loopback servers)."""
import os
import vf

LEVEL = "model_checking"
LEVEL_TEXT = ("TLC checks Socks5 for every dial outcome and every server script of <= 3 steps over {send 5/0/9, stall, close, reset}, cancel at every step: "
              "HitIff0500, TimeBounded (one dial, one write, at most two reads, only the last can time out), Terminates. Every script TLC reaches is then "
              "replayed against the real Scanner.Scan with a scripted loopback server, plus the reply table (quick: the 510 neighbours of 05 00 and a "
              "sample; thorough: all 65 536 two-byte replies) in one segment / split across segments / with extra bytes / without reading the greeting, slow "
              "servers, floods and cancellation; TLC validates outcome, record, greeting bytes and duration against the same clauses.")
NOTE = ("Trusted: TLC; the scripted server; durations use the connect timeout + 3 data timeouts + 700 ms slack (upper bounds only). A black-holed connect "
        "(dial timeout) needs a routed namespace and is exercised only by the socket-level tier.")
TECHNIQUE = "TLA+ model checking (TLC) + spec-generated server scripts replayed against the real scanner, outcomes validated by TLC"
DESIGN_REF = "DESIGN.md section 5, C09"


def reproduced(ctx, binary, bad):
    """runs the script of a rejected probe alone, twice; True iff Socks5Trace rejects it both times"""
    sc = {"dial": bad["dial"], "script": bad["script"], "noRead": bad["noRead"], "cancelMs": bad["cancelMs"], "cancelOnAccept": bad.get("cancelOnAccept", False),
          "dataTMs": bad["dataT"] if bad["dataT"] != 250 else 0}
    for k in range(2):
        sp = os.path.join(ctx.scratch, "c09-confirm-scen.ndjson")
        op = os.path.join(ctx.scratch, "c09-confirm-out-%d.ndjson" % k)
        vf.write_ndjson(sp, [sc])
        rc, out = ctx.go_run_test(binary, "^TestVfSocks$", {"VF_SCENARIOS": sp, "VF_OUT": op, "VF_ONLY_SCEN": 1, "VERIF_SEED": ctx.seed}, 300)
        if rc != 0:
            return True
        evs = vf.read_ndjson(op)
        for i, e in enumerate(evs):
            e["id"] = i + 1
        vf.write_ndjson(op, evs)
        ok, _ = ctx.tlc_trace("Socks5Trace", op, timeout=600)
        if ok:
            return False
    return True


def run(ctx):
    quick = ctx.tier == "quick"
    ctx.cov["rule"] = ("model: all scripts <= 3 steps x dial outcomes x cancel points; runs: every script of the model (dial accept / refuse) + two-byte reply table "
                       "(quick 3000 incl. all neighbours of 05 00; thorough 65536) with segmentation variants + slow / flooding servers + cancel; distinct = runs")
    ctx.tlc_mc("Socks5", "MC_Socks5", workers=4, timeout=600)
    r = ctx.tlc("Socks5", "Gen_Socks5", workers=1, timeout=600)
    sc = []
    for d in r.printed_json():
        if d.get("dial") in ("accept", "refuse", "reset"):
            d["dial"] = "accept" if d["dial"] == "accept" else "refuse"
            d["script"] = [dict(op=s["op"], b=s["b"], delayMs=0) for s in d["script"]]
            sc.append(d)
    if len(sc) < 100:
        raise vf.Inconclusive("scenario generation produced only %d scripts" % len(sc))
    scen = os.path.join(ctx.scratch, "c09-scen.ndjson")
    vf.write_ndjson(scen, sc)
    binary = ctx.go_build_test("./pkg/scan/socks5")
    procs = 8
    envs = []
    for k in range(procs):
        e = {"VF_OUT": os.path.join(ctx.scratch, "c09-%d.ndjson" % k), "VERIF_SEED": ctx.seed * 10 + k,
             "VF_REPLIES": (3000 // procs) if quick else (65536 if k == 0 else 8000)}
        if k == 0:
            e["VF_SCENARIOS"] = scen
        envs.append(e)
    res = vf.go_run_many(ctx, binary, "^TestVfSocks$", envs, timeout=3000)
    events = []
    for (rc, out), e in zip(res, envs):
        if rc != 0:
            ce = vf.crash_events(ctx, rc, out, "socks")
            ctx.violation("C09:crash", "the socks scanner crashed: %s" % ce[1]["text"], replay={"output": out[-20000:]})
            return
        events += vf.read_ndjson(e["VF_OUT"])
    for i, e in enumerate(events):
        e["id"] = i + 1
    ctx.cov["traces_validated_against_impl"] += len(events)
    ctx.count(len(events), [("probe", e["dial"], str(e["script"]), e["noRead"], e["cancelMs"]) for e in events])
    rest = events
    reports = 0
    while rest:
        p = os.path.join(ctx.scratch, "c09-all.ndjson")
        vf.write_ndjson(p, rest)
        ok, info = ctx.tlc_trace("Socks5Trace", p, timeout=3000)
        if ok or reports >= 6:
            break
        bad = rest[info["index"] - 1]
        rest = rest[:info["index"] - 1] + rest[info["index"]:]
        # a probe is sequential code against a scripted server: a rejection that does not show again when the same script is run alone
        # (twice) was a disturbance of the harness (its server goroutine not scheduled in time on a loaded machine), not behaviour of sx
        if not reproduced(ctx, binary, bad):
            ctx.notes.append("a rejected probe (script %s -> %s in %d ms) was not reproduced in two runs of the same script alone: disturbance of the harness" %
                             (bad["script"], bad["result"], bad["durMs"]))
            continue
        ctx.violation("C09:%s:%s" % (bad["result"], "cancel" if bad["cancelMs"] else "script"),
                      "Scan against server script %s (dial %s, cancel %s ms) -> %s in %d ms, record %s: not what Socks5 allows" %
                      (bad["script"], bad["dial"], bad["cancelMs"], bad["result"], bad["durMs"], bad["rec"]),
                      replay={"property": "C09", "trace_spec": "Socks5Trace", "run": [bad]})
        reports += 1
    if events:
        vf.selftest_event(ctx, "Socks5Trace", dict(events[0], id=1, durMs=10 ** 7), "duration of an accepted probe set to 10^7 ms")
    for e in events[:3] + events[-2:]:
        ctx.sample(e)
    # socket-level tier: the real binary with -t 300ms against servers that accept and stall - the flag reaches both the connect and the
    # data deadline, so the whole scan is over far below the 2 s default
    from checks import wire_tier as wt
    n3, rej = wt.run_wire(ctx, select=lambda s: s["name"] in ("socks-timeout-flag", "sigint-inflight-socks", "socks-subnet"), label="c09w", focus="time")
    wt.report(ctx, "C09", rej)
