"""C16 — exit delay is honoured: late replies are still reported, then it exits.
Spec: Runner.tla (explicit-time model of startScanEngine around a packet engine; TLC exhaustive), RunnerTrace.tla (the same
clauses on times measured around the real startScanEngine + real packet engine), PacketScanObsTrace (the same runs as pipeline traces)."""
import os
import vf
from checks import c07
from checks import wire_tier as wt

LEVEL = "model_checking"
LEVEL_TEXT = ("TLC checks the explicit-time model Runner (send phase, done, delay timer, cancel, receiver, result queue, logger, return; every "
              "timing up to the horizon) for NoEarlyCancel, NoEarlyExit, LateReplyTaken and Exits, and a model that cancels as soon as done "
              "closes must fail NoEarlyCancel. The real startScanEngine drives the real packet engine (sender, receiver, merger, result channel, "
              "JSON logger) with send phases shorter and longer than the delay and replies delivered at 0.1/0.5/1.6 of the delay after the last "
              "probe; TLC validates the measured times against the same clauses (lower bound exact, upper bound 3 s) and the same runs "
              "against the pipeline specification. The chunk loop around it (ScanRun: one socket, filter and exit delay per pass of at most 200 port "
              "ranges; explicit time; the regressions delayOnlyLast and timerAtStart must fail) is model checked, and every packet run of the real "
              "binary on the virtual wire - hand-written scenarios and the stimuli ScanRunGen enumerates - is validated against it as an event "
              "sequence (ScanRunTrace).")
NOTE = ("Trusted: TLC; monotonic clock; LastProbe is logged before the sender can signal completion and CtxCancelled after the cancellation, so the "
        "lower bound cannot produce a false alarm; 'reported' is demanded for replies delivered in the first half of delays >= 600 ms. The per-chunk "
        "behaviour of chunked port scans (startPortScanEngine on a real socket) is covered by the socket-level tier (needs unshare -n).")
TECHNIQUE = "TLA+ model checking (TLC, explicit time) + validation of measured traces of the real runner against the spec"
DESIGN_REF = "DESIGN.md section 5, C16"

A = {"Reset", "Gen", "FillBegin", "FillEnd", "WriteBegin", "WriteEnd", "RcvFail", "ErrSeen", "DoneSeen", "Cancel", "Returned", "Hang", "Garbled", "Crash"}
B = {"Reset", "LastProbe", "DoneSeen", "Inject", "Line", "CtxCancelled", "Cancel", "Returned", "Hang", "Garbled", "Crash"}


def pkt_traces(ctx, delay_runs, cancel_runs, procs, label, real_runs=0):
    binary = ctx.go_build_test("./command")
    envs = [{"VF_OUT": os.path.join(ctx.scratch, "%s-%d.ndjson" % (label, k)), "VF_DELAY_RUNS": delay_runs, "VF_CANCEL_RUNS": cancel_runs, "VF_REAL_RUNS": real_runs,
             "VERIF_SEED": ctx.seed * 1000 + k} for k in range(procs)]
    res = vf.go_run_many(ctx, binary, "^TestVfPktRunner$", envs, timeout=2400)
    events = []
    for (rc, out), e in zip(res, envs):
        if os.path.exists(e["VF_OUT"]):
            events += vf.read_ndjson(e["VF_OUT"])
        events += vf.crash_events(ctx, rc, out, label)
    ta = os.path.join(ctx.scratch, label + "-a.ndjson")
    tb = os.path.join(ctx.scratch, label + "-b.ndjson")
    vf.write_ndjson(ta, [e for e in events if e["ev"] in A])
    vf.write_ndjson(tb, [e for e in events if e["ev"] in B])
    return ta, tb


def keyfn(run, evt):
    return "runner:%s:%s" % (evt.get("ev"), evt.get("what", ""))


def run(ctx):
    if ctx.replay:
        return vf.replay_trace(ctx, ctx.replay)
    quick = ctx.tier == "quick"
    ctx.cov["rule"] = ("model: every timing of send/done/timer/cancel/reply/log/return up to the horizon; runs: exit delays 120/450/600/900 ms, "
                       "1..50 probes, send phases shorter and longer than the delay, replies at 0.1/0.5/1.6 of the delay; distinct = runs")
    ctx.tlc_mc("Runner", "MC_Runner", workers=8, timeout=900)
    ctx.tlc_mc("Runner", "MC_Runner_bug", workers=4, timeout=600, expect_violation="NoEarlyCancel")
    ctx.tlc_mc("Runner", "MC_Runner_sigint", workers=8, timeout=900)
    # the chunk loop around the runner (one socket, one filter, one exit delay per pass of at most 200 port ranges), with the two seeded
    # regressions as non-vacuity checks
    ctx.tlc_mc("MC_ScanRun", "MC_ScanRun", workers=8, timeout=900)
    ctx.tlc_mc("MC_ScanRun", "MC_ScanRun_delayOnlyLast", workers=4, timeout=600, expect_violation="LateReplyReported")
    ctx.tlc_mc("MC_ScanRun", "MC_ScanRun_timerAtStart", workers=4, timeout=600, expect_violation="DelayHonoured")
    ta, tb = pkt_traces(ctx, 8 if quick else 60, 0, 4 if quick else 8, "c16")
    n1, _ = vf.validate_runs(ctx, "RunnerTrace", tb, keyfn=keyfn, label="runner timing")
    vf.validate_runs(ctx, "PacketScanObsTrace", ta, keyfn=c07.keyfn, label="runner pipeline")
    ctx.count(0, [("run", i) for i in range(n1)])
    for r0 in vf.split_runs(vf.read_ndjson(tb))[:4]:
        ctx.sample(r0)
    # socket-level tier: --exit-delay of every packet command, per chunk of a chunked port scan, late replies on the wire
    n3, rej = wt.run_wire(ctx, select=lambda s: s["expect"]["kind"] in ("packet", "packetbusy"), label="c16w", focus="delay")
    wt.report(ctx, "C16", rej)
    # the same runs as event sequences (probe, injected frame, exit) against the chunk-loop state machine: passes in order, each closed no
    # earlier than its delay after its last probe, replies inside the window printed, nothing else printed
    wt.scanrun_validate(ctx, "C16", "c16s")
    # model-generated stimuli: every combination of at most two frames (reply to pass 1 / reply to pass 2 / not reply-shaped) arriving while
    # pass 1 sends, early / late in its exit delay, early / late in the exit delay of pass 2; ScanRunTrace decides what had to be printed
    gen = wt.generated_scenarios(ctx, 12 if quick else 0)
    n5, rej = wt.run_wire(ctx, select=lambda s: s["name"].startswith("gen-"), label="c16g", focus="delay", extra=gen)
    wt.report(ctx, "C16", rej)
    wt.scanrun_validate(ctx, "C16", "c16gs")
    n4, rej = wt.run_wire(ctx, select=lambda s: s["expect"]["kind"] == "packet" and "chunked" in s["name"], label="c16r", focus="reply")
    wt.report(ctx, "C16", rej)
    ctx.assumptions += ["upper bound on exit: 3 s after the run context was observed cancelled",
                        "late-reply clause only for replies delivered at <= 0.5 of a delay >= 600 ms (>= 300 ms of slack for the result path)"]
