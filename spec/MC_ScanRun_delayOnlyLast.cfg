SPECIFICATION Spec
CONSTANTS
  Variant = "delayOnlyLast"
  AttachAtomic = TRUE
INVARIANT LateReplyReported
CHECK_DEADLOCK FALSE
