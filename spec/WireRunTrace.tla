---------------------------- MODULE WireRunTrace ----------------------------
(* Socket-level tier: one event per run of the real sx binary on a virtual wire (veth in a private network          *)
(* namespace; loopback for application scans). The clauses of C01 / C02 / C03 / C12 / C15 / C16 / C17 are evaluated   *)
(* on what was captured: probes (bytes + capture time), injected frames, stdout records, exit status and time.        *)
EXTENDS Integers, Sequences, FiniteSets, TLC, Json, IOUtils
T4 == INSTANCE IPv4
WD == INSTANCE WireDecode
Trace == ndJsonDeserialize(IOEnv.VERIF_TRACE)
Tol == 25000                 \* capture / wait latency tolerance on lower bounds (microseconds)
ExitBound == 4000000         \* "exits within bounded time"
U16(s, i) == s[i] * 256 + s[i + 1]
\* ---- probes ----
Off(x) == IF x.vpn THEN 0 ELSE 14           \* raw-IP (VPN) mode: the frame is the datagram without the Ethernet header
DstOf(x, p) == IF x.scan = "arp" THEN <<SubSeq(p.bytes, 39, 42), 0>>
               ELSE IF x.scan \in {"icmp"} THEN <<SubSeq(p.bytes, Off(x) + 17, Off(x) + 20), 0>>
               ELSE <<SubSeq(p.bytes, Off(x) + 17, Off(x) + 20), U16(p.bytes, Off(x) + 23)>>
PortCount(ranges, p) == Cardinality({i \in 1..Len(ranges) : ranges[i].lo <= p /\ p <= ranges[i].hi})
Ports(ranges) == UNION {ranges[i].lo..ranges[i].hi : i \in 1..Len(ranges)}
Excluded(ip, excl) == \E i \in 1..Len(excl) : T4!InNet(ip, excl[i])
Addrs(t) == {a \in T4!NetAddrs(t.net) : ~Excluded(a, t.exclude)}
Denote(t) == IF t.pairs # <<>> THEN {<<t.pairs[i].ip, t.pairs[i].port>> : i \in 1..Len(t.pairs)}
             ELSE IF t.ranges = <<>> THEN {<<a, 0>> : a \in Addrs(t)}
             ELSE {<<a, p>> : a \in Addrs(t), p \in Ports(t.ranges)}
Mult(t, k) == IF t.pairs # <<>> THEN Cardinality({i \in 1..Len(t.pairs) : <<t.pairs[i].ip, t.pairs[i].port>> = k})
              ELSE IF t.ranges = <<>> THEN 1 ELSE PortCount(t.ranges, k[2])
\* C01 / C02: exactly one probe per denoted (address, port), with multiplicity; nothing else
AllOnce(t) == IF t.pairs # <<>> THEN Cardinality(Denote(t)) = Len(t.pairs) ELSE \A i, j \in 1..Len(t.ranges) : i # j => (t.ranges[i].hi < t.ranges[j].lo \/ t.ranges[j].hi < t.ranges[i].lo)
CoverageOK(e) == LET x == e.expect keys == [i \in 1..Len(e.probes) |-> DstOf(x, e.probes[i])] KS == {keys[i] : i \in 1..Len(keys)} IN
   /\ KS = Denote(x.target)
   /\ IF AllOnce(x.target) THEN Cardinality(KS) = Len(keys)              \* every key once: no probe repeated (cheap form for big scans)
      ELSE \A k \in Denote(x.target) : Cardinality({i \in 1..Len(keys) : keys[i] = k}) = Mult(x.target, k)
\* C17 / C05: every probe carries the expected source MAC / IP (and destination MAC)
\* C11: when the destination MACs come from an ARP cache, each probe goes to the entry of its own destination address
DstMacFor(x, b) == LET S == {i \in 1..Len(x.dstmacs) : x.dstmacs[i].ip = SubSeq(b, 31, 34)} IN
                   IF S = {} THEN x.dstmac ELSE x.dstmacs[CHOOSE i \in S : TRUE].mac    \* own cache entry, else the gateway (x.dstmac = <<>>: none known)
SourceOK(e) == LET x == e.expect IN \A i \in 1..Len(e.probes) : LET b == e.probes[i].bytes IN
   IF x.vpn THEN b[1] \div 16 = 4 /\ SubSeq(b, 13, 16) = x.srcip                                  \* an IPv4 datagram, no link header
   ELSE /\ SubSeq(b, 7, 12) = x.srcmac /\ SubSeq(b, 1, 6) = DstMacFor(x, b)
        /\ (IF x.scan = "arp" THEN SubSeq(b, 29, 32) = x.srcip ELSE SubSeq(b, 27, 30) = x.srcip)
\* ---- chunks: the scan is split into runs of at most 200 port ranges; chunk c covers probes Lo(c)..Hi(c) in capture order ----
ChunkSizes(x) == x.chunkProbes
Hi(x, c) == LET RECURSIVE S(_) S(k) == IF k = 0 THEN 0 ELSE S(k - 1) + ChunkSizes(x)[k] IN S(c)
ChunkAt(e, t) == LET x == e.expect n == Cardinality({i \in 1..Len(e.probes) : e.probes[i].t <= t})
                     C == {c \in 1..Len(ChunkSizes(x)) : n <= Hi(x, c)} IN
                 IF C = {} THEN Len(ChunkSizes(x)) ELSE CHOOSE c \in C : \A d \in C : c <= d
\* C16: after the last probe of every chunk the scan keeps listening for the exit delay; then it goes on / exits within bounded time
DelayOK(e) == LET x == e.expect n == Len(e.probes) IN
   /\ n = Hi(x, Len(ChunkSizes(x)))
   /\ \A c \in 1..(Len(ChunkSizes(x)) - 1) : Hi(x, c) > 0 /\ Hi(x, c) < n =>
          e.probes[Hi(x, c) + 1].t >= e.probes[Hi(x, c)].t + x.delayUs - Tol
   /\ (n > 0 => /\ e.exitT >= e.probes[n].t + x.delayUs - Tol
                /\ e.exitT <= e.probes[n].t + x.delayUs + ExitBound)
\* C03: an injected well-formed frame is reported iff it has the reply shape of the scan (with the port ranges of the chunk that was
\* running when it arrived), by exactly one record carrying the frame's own fields
CfgAt(e, t) == LET x == e.expect IN [scan |-> x.scan, vpn |-> x.vpn, hasNet |-> x.hasNet, net |-> x.target.net, ranges |-> x.chunkRanges[ChunkAt(e, t)]]
RecMatches(x, r, w) == CASE x.scan = "arp" -> r.ip = w.ip /\ r.mac = w.mac
                         [] x.scan \in {"udp", "icmp"} -> r.ip = w.ip /\ r.type = w.type /\ r.code = w.code /\ r.ttl = w.ttl
                         [] OTHER -> r.ip = w.ip /\ r.port = w.port /\ r.flags = w.flags
\* A frame injected earlier than LatUs before the pass that is running at that moment is closed (last probe of the pass + exit delay) must
\* be reported; one injected later (a harness that was held up injects late) may or may not be: sx may be gone already.
LatUs == 150000
CloseOf(e, t) == LET x == e.expect c == ChunkAt(e, t) IN IF Hi(x, c) = 0 \/ Hi(x, c) > Len(e.probes) THEN 0 ELSE e.probes[Hi(x, c)].t + x.delayUs
ReplyOK(e) == LET x == e.expect
                  inj == {i \in 1..Len(e.injected) : e.injected[i].done}
                  shaped == {i \in inj : WD!ReplyShape(CfgAt(e, e.injected[i].t), e.injected[i].bytes)}
                  must == {i \in shaped : e.injected[i].t + LatUs <= CloseOf(e, e.injected[i].t)}
                  rec(i) == WD!RecordOf(CfgAt(e, e.injected[i].t), e.injected[i].bytes) IN
   /\ Len(e.records) >= Cardinality(must) /\ Len(e.records) <= Cardinality(shaped)
   /\ \A i \in must : Cardinality({k \in 1..Len(e.records) : RecMatches(x, e.records[k], rec(i))}) >= 1
   /\ \A k \in 1..Len(e.records) : \E i \in shaped : RecMatches(x, e.records[k], rec(i))
   /\ (must = shaped => \A i \in shaped : Cardinality({k \in 1..Len(e.records) : RecMatches(x, e.records[k], rec(i))}) = Cardinality({j \in shaped : rec(j) = rec(i)}))
\* C15: spacing of probe capture times
SpacingOK(e) == LET x == e.expect per == (x.rate.winMs * 1000 + x.rate.winNs \div 1000) \div x.rate.n IN
   \A i \in 1..Len(e.probes) : \A j \in (i + 1)..Len(e.probes) :
        e.probes[j].t - e.probes[i].t >= (j - i - 10) * per - (60000 + ((j - i) * per) \div 10)
\* C15 for application scans: the moments the loopback servers accepted the connections of the probes
ConnSpacingOK(e) == LET x == e.expect per == (x.rate.winMs * 1000 + x.rate.winNs \div 1000) \div x.rate.n t == e.connTimes IN
   \A i \in 1..Len(t) : \A j \in (i + 1)..Len(t) : t[j] - t[i] >= (j - i - 10) * per - (60000 + ((j - i) * per) \div 10)
\* application scans on loopback: connections seen by the servers = Denote(target), each once
ConnsOK(e) == LET x == e.expect IN
   /\ {<<e.conns[i].ip, e.conns[i].port>> : i \in 1..Len(e.conns)} = Denote(x.target)
   /\ \A i \in 1..Len(e.conns) : e.conns[i].n = Mult(x.target, <<e.conns[i].ip, e.conns[i].port>>)
   /\ Len(e.records) = Len(e.conns)                       \* every server is a SOCKS5 proxy: each one reported once
\* application scans over HTTP (elastic / docker): every connection any server saw was addressed to a target - whatever proxy the
\* environment names and whatever redirect a server answers with; a probe makes at most maxConns requests, each on its own connection
ConnsHttpOK(e) == LET x == e.expect IN
   /\ {<<e.conns[i].ip, e.conns[i].port>> : i \in 1..Len(e.conns)} = Denote(x.target)
   /\ \A i \in 1..Len(e.conns) : e.conns[i].n \in 1..x.maxConns
   /\ Len(e.records) = x.nrecords
   /\ (x.hosts => /\ {<<e.records[i].ip, e.records[i].port>> : i \in 1..Len(e.records)} = Denote(x.target)      \* every server answers: each target reported once,
                  /\ Len(e.records) = Cardinality(Denote(x.target)))                                              \* under its own address
\* C09 / C10 through the command's option wiring: with servers that accept and stall, the scan is over within the bound derived from -t
TimeOK(e) == LET x == e.expect IN
   /\ e.exit = 0 /\ e.exitT <= x.boundUs /\ Len(e.records) = x.nrecords
   /\ {<<e.conns[i].ip, e.conns[i].port>> : i \in 1..Len(e.conns)} = Denote(x.target)
\* C19 on the wire: consecutive complete passes (each a permutation of the subnet), at least the rescan interval apart, until Ctrl-C;
\* C14: with de-duplication every host is printed once however often it answers
LiveOK(e) == LET x == e.expect n == x.naddr full == Len(e.probes) \div n IN
   /\ full >= x.minPasses
   /\ \A k \in 0..(full - 1) : {DstOf(x, e.probes[k * n + j])[1] : j \in 1..n} = Addrs(x.target)
   /\ \A k \in 1..(full - 1) : e.probes[k * n + 1].t >= e.probes[k * n].t + x.intervalUs - Tol
   /\ \A i, j \in 1..Len(e.records) : i # j => e.records[i].ip # e.records[j].ip
   /\ {e.records[i].ip : i \in 1..Len(e.records)} = {SubSeq(e.injected[i].bytes, 29, 32) : i \in {k \in 1..Len(e.injected) : e.injected[k].done}}
   /\ (e.sigintT > 0 => e.exitT <= e.sigintT + ExitBound)
\* an interface flap during the scan: write and poll errors are reported, but the scan goes on - a reply after the flap is printed, every
\* probe is one of the target, the process ends by itself after its exit delay
FlapOK(e) == LET x == e.expect inj == {i \in 1..Len(e.injected) : e.injected[i].done /\ e.injected[i].t > e.flapT} IN
   /\ e.exit = 0 /\ e.flapT > 0
   /\ \A i \in 1..Len(e.probes) : DstOf(x, e.probes[i]) \in Denote(x.target)
   /\ \E i \in 1..Len(e.probes) : e.probes[i].t > e.flapT
   /\ \A i \in inj : WD!ReplyShape(CfgAt(e, e.injected[i].t), e.injected[i].bytes) =>
          \E k \in 1..Len(e.records) : RecMatches(x, e.records[k], WD!RecordOf(CfgAt(e, e.injected[i].t), e.injected[i].bytes))
LiveFlapOK(e) == LET x == e.expect after == {i \in 1..Len(e.probes) : e.probes[i].t > e.flapT + 500000} IN
   /\ e.flapT > 0 /\ e.sigintT > e.flapT /\ e.exitT >= e.sigintT /\ e.exitT <= e.sigintT + ExitBound
   /\ Cardinality(after) >= x.minPasses * x.naddr                                    \* passes keep coming after the flap
   /\ \A i \in 1..Len(e.probes) : DstOf(x, e.probes[i])[1] \in Addrs(x.target)
Clean(e) == ~e.panic /\ ~e.killed /\ e.stdoutComplete /\ e.drops = 0
\* Each property's check looks at its own clause (VF_FOCUS); a run that crashed, hung or lost capture data is judged by the "clean" focus
\* only (its other observations are incomplete).
Focus == IOEnv.VF_FOCUS
F(name) == Focus \in {"all", name}
RunOK(e) == LET x == e.expect IN
   /\ (F("clean") => Clean(e))
   /\ (F("delay") => ~e.killed)              \* C16: when the delay is over the scan does exit (a run that had to be killed did not)
   /\ (Clean(e) =>
        CASE x.kind = "refuse" -> (F("refuse") => e.exit # 0 /\ Len(e.probes) = 0 /\ Len(e.conns) = 0 /\ Len(e.records) = 0)    \* C02: refused before anything is sent
          [] x.kind \in {"sigint", "packetsigint"} -> (F("clean") => /\ (e.sigintT > 0 => e.exitT <= e.sigintT + ExitBound)                              \* C12
                                                  /\ \A i \in 1..Len(e.probes) : DstOf(x, e.probes[i]) \in Denote(x.target))
          [] x.kind = "app" -> /\ (F("coverage") => e.exit = 0 /\ ConnsOK(e))
                               /\ (F("rate") /\ "rate" \in DOMAIN x /\ e.stallUs <= 20000 => ConnSpacingOK(e))
          [] x.kind = "apphttp" -> (F("coverage") => e.exit = 0 /\ ConnsHttpOK(e))
          [] x.kind = "apptime" -> (F("time") => TimeOK(e))
          [] x.kind = "live" -> (F("live") => LiveOK(e))
          [] x.kind = "liveflap" -> (F("live") => LiveFlapOK(e))
          [] x.kind = "flap" -> (F("reply") \/ F("clean") => FlapOK(e))
          [] x.kind = "packetbusy" -> /\ (F("coverage") => e.exit = 0 /\ CoverageOK(e))       \* replies flood the wire: coverage and delay only
                                      /\ (F("delay") => DelayOK(e))
          [] x.kind = "packet" -> /\ (F("coverage") => e.exit = 0 /\ CoverageOK(e))
                                  /\ (F("source") => SourceOK(e))
                                  /\ (F("delay") => DelayOK(e))
                                  /\ (F("reply") => ReplyOK(e))
                                  /\ (F("rate") /\ x.rate.n > 0 /\ e.stallUs <= 20000 => SpacingOK(e))   \* capture times of a held-up harness say nothing
                                  /\ (F("errors") /\ x.nerr >= 0 => Len(e.stderr) = x.nerr))
VARIABLE l
Init == l = 1
Next == l <= Len(Trace) /\ RunOK(Trace[l]) /\ l' = l + 1
TSpec == Init /\ [][Next]_l
HighWater == TLCSet(1, IF l > TLCGet(1) THEN l ELSE TLCGet(1))
ASSUME TLCSet(1, 0)
Which(e) == LET x == e.expect IN
   IF e.killed /\ F("delay") THEN "did not exit (killed by the harness)"
   ELSE IF ~Clean(e) THEN "not clean (panic / killed / incomplete output / capture drops)"
   ELSE IF x.kind \in {"packet", "packetbusy"} THEN
        (IF F("coverage") /\ (e.exit # 0 \/ ~CoverageOK(e)) THEN "coverage" ELSE IF F("source") /\ ~SourceOK(e) THEN "source" ELSE IF F("delay") /\ ~DelayOK(e) THEN "exit delay"
         ELSE IF F("reply") /\ ~ReplyOK(e) THEN "reply shape" ELSE IF F("errors") /\ x.nerr >= 0 /\ Len(e.stderr) # x.nerr THEN "errors on stderr" ELSE "rate")
   ELSE x.kind
TraceAccepted == IF TLCGet(1) = Len(Trace) + 1 THEN PrintT(<<"TRACE ACCEPTED", Len(Trace)>>)
                 ELSE Print(<<"REJECTED at event", TLCGet(1), [name |-> Trace[TLCGet(1)].name, clause |-> Which(Trace[TLCGet(1)])]>>, FALSE)
=============================================================================
