"""C13 — bad target-list entries become one faithful error each, never a probe.
Spec: Targets.tla (generator stack with file-mode semantics, optional exclusion / MAC stages; TLC exhaustive), TargetsGen.tla (scenarios),
TargetsTrace.tla (validation of the real request stream and of the frames built from it)."""
import vf
from checks import targets_common as tc

LEVEL = "model_checking"
LEVEL_TEXT = ("TLC checks Targets exhaustively over every target specification of the abstract universe (files of <= 2 lines over 7 line kinds at "
              "every position x {no stage, exclusion filter, MAC resolution with/without gateway, both} x {pairs, file x ports, file hosts}): "
              "BadEntryOneError, NeighboursIntact, NoBorrowedAddress; the model of the code as found (Fixed = FALSE) must fail. Every sampled "
              "specification (all in thorough) is rendered to real files and run through the real stack as the commands wire it "
              "(newIPPortGenerator, NewFile*Generator, parseExcludeFile + cidranger, arp.FillCache + NewCacheRequestGenerator, the scan methods' "
              "Packets with the real fillers); the recorded request stream must be one of the streams the specification allows and the frames "
              "must carry the same items.")
NOTE = ("Trusted: TLC; the rendering of abstract lines to JSONL text and the cause classification of errors (sentinel or message) in the harness. "
        "After a bad line both stopping and continuing are accepted, as the statement allows.")
TECHNIQUE = "TLA+ model checking (TLC) + spec-generated target files replayed through the real generators, streams validated against the spec"
DESIGN_REF = "DESIGN.md section 5, C13"

FILE_MODES = {"pairs", "filexports", "filehosts"}


def run(ctx):
    if ctx.replay:
        return vf.replay_trace(ctx, ctx.replay)
    quick = ctx.tier == "quick"
    ctx.cov["rule"] = ("all target specifications over 2 addresses x 2 ports x files of <= 2 lines over {valid, badjson, badip, noip, badport, noport, toolong} "
                       "(TLC enumerates 183105; file modes only; quick: a seeded sample of 6000, thorough: all); distinct = specifications")
    ctx.tlc_mc("Targets", "MC_Targets", workers=16, timeout=1200)
    ctx.tlc_mc("Targets", "MC_Targets_asfound", workers=8, timeout=600, expect_violation="BadEntryOneError")
    sc, total = tc.abstract_scenarios(ctx, 2, 2, 2, FILE_MODES, 6000 if quick else 0)
    # beyond the enumerated universe: long files (more bad lines than the 100-slot error buffers hold), seeded
    import random
    rnd = random.Random(ctx.seed * 31 + 5)
    kinds = ["valid", "badip", "badport", "noip", "noport", "badip", "badport"]
    for k in range(4 if quick else 24):
        n = 250 + rnd.randrange(200)
        f = [{"kind": rnd.choice(kinds), "ip": rnd.choice([1, 2]), "port": rnd.choice([1, 2])} for _ in range(n)]
        sc.append({"mode": "pairs", "file": f, "ports": [], "excl": [2] if k % 2 else [], "cache": [], "gw": True, "useFilter": bool(k % 2), "useMac": False,
                   "naddr": 2, "id": len(sc) + 1, "cmd": ["socks", "tcp"][k % 2 if k > 1 else 0]})
    ctx.step("scenarios", enumerated=total, run=len(sc))
    trace = tc.run_parallel(ctx, "^TestVfTargets$", sc, "c13", procs=8 if quick else 14)
    n, _ = vf.validate_runs(ctx, "TargetsTrace", trace, cfg="TargetsTrace_A2", keyfn=tc.target_key, label="target files", timeout=3000)
    ctx.count(0, [("spec", i) for i in range(n)])
    # socket-level tier, 'no MAC known for the destination': an ARP cache whose only usable entry is one target's own, IPv6 neighbours in
    # the same file, no --gwmac, no default route - the other targets become one error each and no probe
    from checks import wire_tier as wt
    n2, rej = wt.run_wire(ctx, select=lambda s: s["name"] == "tcp-cache-v6-no-gateway", label="c13w", focus="coverage")
    wt.report(ctx, "C13", rej)
    ctx.cov["exhaustive"] = not quick
    for r0 in vf.split_runs(vf.read_ndjson(trace))[:200:50]:
        ctx.sample(r0)
    ctx.assumptions += ["a line over 64 KiB is the 'over-long line' case (bufio.Scanner limit)"]
