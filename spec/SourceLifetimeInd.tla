------------------------- MODULE SourceLifetimeInd -------------------------
(* Unbounded safety of the repaired packet source (SourceLifetime with Locked = Copying = PollTimeout = TRUE and no bound on the      *)
(* number of frames): IndInv is inductive and implies NoFault. Checked with Apalache:                                                *)
(*   apalache-mc check --init=IndInit --inv=IndInv --length=1 SourceLifetimeInd.tla      (IndInv /\ Next => IndInv')                  *)
(*   apalache-mc check --init=Init --inv=IndInv --length=0 SourceLifetimeInd.tla         (Init => IndInv)                             *)
EXTENDS Integers
VARIABLES
  \* @type: Str;
  rd,
  \* @type: Bool;
  rlocked,
  \* @type: Str;
  cl,
  \* @type: Bool;
  mapped,
  \* @type: Bool;
  closedFlag,
  \* @type: Bool;
  ctxDone,
  \* @type: Int;
  avail,
  \* @type: Bool;
  fault
vars == <<rd, rlocked, cl, mapped, closedFlag, ctxDone, avail, fault>>
Init == rd = "top" /\ rlocked = FALSE /\ cl = "idle" /\ mapped = TRUE /\ closedFlag = FALSE /\ ctxDone = FALSE /\ avail = 0 /\ fault = FALSE
Arrive == mapped /\ avail' = avail + 1 /\ UNCHANGED <<rd, rlocked, cl, mapped, closedFlag, ctxDone, fault>>
Cancel == ~ctxDone /\ ctxDone' = TRUE /\ UNCHANGED <<rd, rlocked, cl, mapped, closedFlag, avail, fault>>
Top == /\ rd = "top"
       /\ IF ctxDone THEN rd' = "stopped" /\ UNCHANGED rlocked
          ELSE /\ cl # "waiting"
               /\ IF closedFlag THEN rd' = "stopped" /\ UNCHANGED rlocked
                  ELSE rd' = "polling" /\ rlocked' = TRUE
       /\ UNCHANGED <<cl, mapped, closedFlag, ctxDone, avail, fault>>
PollWake == rd = "polling" /\ avail > 0 /\ mapped /\ rd' = "copying" /\ UNCHANGED <<rlocked, cl, mapped, closedFlag, ctxDone, avail, fault>>
PollExpire == rd = "polling" /\ avail = 0 /\ rd' = "top" /\ rlocked' = FALSE /\ UNCHANGED <<cl, mapped, closedFlag, ctxDone, avail, fault>>
Copy == /\ rd = "copying" /\ avail' = avail - 1 /\ fault' = (fault \/ ~mapped) /\ rd' = "processing" /\ rlocked' = FALSE
        /\ UNCHANGED <<cl, mapped, closedFlag, ctxDone>>
Process == rd = "processing" /\ fault' = fault /\ rd' = "top" /\ UNCHANGED <<rlocked, cl, mapped, closedFlag, ctxDone, avail>>
CloseBegin == cl = "idle" /\ ctxDone /\ cl' = "waiting" /\ UNCHANGED <<rd, rlocked, mapped, closedFlag, ctxDone, avail, fault>>
CloseUnmap == cl = "waiting" /\ ~rlocked /\ mapped' = FALSE /\ closedFlag' = TRUE /\ cl' = "done" /\ UNCHANGED <<rd, rlocked, ctxDone, avail, fault>>
Next == Arrive \/ Cancel \/ Top \/ PollWake \/ PollExpire \/ Copy \/ Process \/ CloseBegin \/ CloseUnmap
TypeOK == /\ rd \in {"top", "polling", "copying", "processing", "stopped"} /\ cl \in {"idle", "waiting", "done"}
          /\ rlocked \in BOOLEAN /\ mapped \in BOOLEAN /\ closedFlag \in BOOLEAN /\ ctxDone \in BOOLEAN /\ fault \in BOOLEAN /\ avail \in Int /\ avail >= 0
IndInv == /\ TypeOK
          /\ ~fault
          /\ (rd \in {"polling", "copying"} <=> rlocked)          \* the read lock is held exactly for the duration of a read
          /\ (rlocked => mapped)                                   \* ... and the ring stays mapped while it is held
          /\ (mapped <=> cl # "done") /\ (closedFlag <=> ~mapped)
          /\ (rd = "copying" => avail > 0)
IndInit == IndInv
NoFault == ~fault
=============================================================================
