SPECIFICATION Spec
CONSTANTS R = 3 W = 2 NBuf = 3 CapReq = 1 CapOut = 1 CapMerged = 2 CapErr = 1 AllowCancel = FALSE Bug = "none"
INVARIANTS WireFaithful WireNoDup NoCancelComplete DoneAfterLastWrite ErrorsNeverInvented
PROPERTIES ObsSpec Progress
CHECK_DEADLOCK FALSE
