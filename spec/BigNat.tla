------------------------------- MODULE BigNat -------------------------------
(* Naturals up to 2^34 as two limbs <<hi, lo>>, lo in 0..65535 (TLC integers are   *)
(* 32-bit; 2^32+61 does not fit). Multiplication and exponentiation are folds of   *)
(* modular additions (double-and-add), so no intermediate exceeds 2^35.            *)
EXTENDS Integers, Sequences, SequencesExt
B == 65536
Norm(h, l) == <<h + (l \div B), l % B>>
FromInt(v) == <<v \div B, v % B>>                 \* v < 2^31
Add(a, b) == Norm(a[1] + b[1], a[2] + b[2])
Eq(a, b) == a[1] = b[1] /\ a[2] = b[2]
Lt(a, b) == a[1] < b[1] \/ (a[1] = b[1] /\ a[2] < b[2])
Le(a, b) == Lt(a, b) \/ Eq(a, b)
Sub(a, b) == IF a[2] >= b[2] THEN <<a[1] - b[1], a[2] - b[2]>> ELSE <<a[1] - b[1] - 1, a[2] + B - b[2]>>
AddMod(a, b, p) == LET s == Add(a, b) IN IF Lt(s, p) THEN s ELSE Sub(s, p)
Half(a) == <<a[1] \div 2, ((a[1] % 2) * B + a[2]) \div 2>>
Odd(a) == a[2] % 2 = 1
IsZero(a) == a[1] = 0 /\ a[2] = 0
One == <<0, 1>>
RECURSIVE Bits(_)   \* most significant bit first; depth <= 35
Bits(a) == IF IsZero(a) THEN <<>> ELSE Append(Bits(Half(a)), IF Odd(a) THEN 1 ELSE 0)
\* a, b < p
MulMod(a, b, p) == IF p[1] = 0 /\ p[2] <= 32768 THEN <<0, (a[2] * b[2]) % p[2]>>      \* small modulus: the product fits a TLC integer
                   ELSE FoldLeft(LAMBDA acc, bit : LET d == AddMod(acc, acc, p) IN IF bit = 1 THEN AddMod(d, a, p) ELSE d, <<0, 0>>, Bits(b))
\* exponent as a bit sequence, most significant first (63-bit random draws do not fit any other way)
ExpModBits(g, bits, p) == FoldLeft(LAMBDA acc, bit : LET s == MulMod(acc, acc, p) IN IF bit = 1 THEN MulMod(s, g, p) ELSE s,
                                   IF Eq(p, One) THEN <<0, 0>> ELSE One, bits)
ExpMod(g, e, p) == ExpModBits(g, Bits(e), p)
\* reduce a < 2^34 modulo p by binary long division (p >= 1)
Mod(a, p) == FoldLeft(LAMBDA acc, bit : LET d == Add(Add(acc, acc), <<0, bit>>) IN IF Lt(d, p) THEN d ELSE Sub(d, p), <<0, 0>>, Bits(a))
\* exact product when a*b < 2^34
Mul(a, b) == MulMod(a, b, <<262144, 0>>)
=============================================================================
