------------------------------- MODULE AppScan -------------------------------
(* pkg/scan/engine.go GenericEngine + result.go resultChan + command/root.go startScanEngine *)
EXTENDS Integers, Sequences, FiniteSets, TLC
CONSTANTS R, W, CapReq, CapRes, CapErr, AllowCancel, DelayLongEnough
Req == 1..R
Wk  == 1..W
Kind == {"hit", "miss", "fail", "reqerr"}
VARIABLES kind, cmdCtx, ctx, gi, reqs, reqsClosed, wk, internal, cp, results, resultsClosed,
          errc, errcClosed, done, lg, ed, rn, printed, errlog, scanned, panic
vars == <<kind, cmdCtx, ctx, gi, reqs, reqsClosed, wk, internal, cp, results, resultsClosed,
          errc, errcClosed, done, lg, ed, rn, printed, errlog, scanned, panic>>
Init == /\ kind \in [Req -> Kind] /\ cmdCtx = FALSE /\ ctx = FALSE /\ gi = 1 /\ reqs = <<>> /\ reqsClosed = FALSE
        /\ wk = [w \in Wk |-> [pc |-> "recv", req |-> 0]]
        /\ internal = <<>> /\ cp = 0 /\ results = <<>> /\ resultsClosed = FALSE
        /\ errc = <<>> /\ errcClosed = FALSE /\ done = FALSE
        /\ lg = "run" /\ ed = "run" /\ rn = "waitdone"
        /\ printed = <<>> /\ errlog = <<>> /\ scanned = [r \in Req |-> 0] /\ panic = FALSE
U(v) == UNCHANGED v
GenSend == /\ gi <= R /\ ~ctx /\ Len(reqs) < CapReq /\ reqs' = Append(reqs, gi) /\ gi' = gi + 1
           /\ U(<<kind, cmdCtx, ctx, reqsClosed, wk, internal, cp, results, resultsClosed, errc, errcClosed, done, lg, ed, rn, printed, errlog, scanned, panic>>)
GenClose == /\ ~reqsClosed /\ (gi > R \/ ctx) /\ reqsClosed' = TRUE
            /\ U(<<kind, cmdCtx, ctx, gi, reqs, wk, internal, cp, results, resultsClosed, errc, errcClosed, done, lg, ed, rn, printed, errlog, scanned, panic>>)
WRecv(w) == /\ wk[w].pc = "recv"
            /\ \/ /\ ctx /\ wk' = [wk EXCEPT ![w].pc = "exit"] /\ U(reqs)
               \/ /\ reqs = <<>> /\ reqsClosed /\ wk' = [wk EXCEPT ![w].pc = "exit"] /\ U(reqs)
               \/ /\ reqs # <<>> /\ reqs' = Tail(reqs)
                  /\ wk' = [wk EXCEPT ![w] = [pc |-> IF kind[Head(reqs)] = "reqerr" THEN "err" ELSE "scan", req |-> Head(reqs)]]
            /\ U(<<kind, cmdCtx, ctx, gi, reqsClosed, internal, cp, results, resultsClosed, errc, errcClosed, done, lg, ed, rn, printed, errlog, scanned, panic>>)
WScanBegin(w) == /\ wk[w].pc = "scan" /\ wk' = [wk EXCEPT ![w].pc = "scanning"]
                 /\ scanned' = [scanned EXCEPT ![wk[w].req] = @ + 1]
                 /\ panic' = (panic \/ done)            \* a probe starting after completion was signalled
                 /\ U(<<kind, cmdCtx, ctx, gi, reqs, reqsClosed, internal, cp, results, resultsClosed, errc, errcClosed, done, lg, ed, rn, printed, errlog>>)
WScanEnd(w) == /\ wk[w].pc = "scanning"
               /\ wk' = [wk EXCEPT ![w].pc = CASE kind[wk[w].req] = "hit" -> "put" [] kind[wk[w].req] = "fail" -> "err" [] OTHER -> "recv"]
               /\ U(<<kind, cmdCtx, ctx, gi, reqs, reqsClosed, internal, cp, results, resultsClosed, errc, errcClosed, done, lg, ed, rn, printed, errlog, scanned, panic>>)
WPut(w) == /\ wk[w].pc = "put"
           /\ \/ cmdCtx /\ U(internal)
              \/ Len(internal) < CapRes /\ internal' = Append(internal, wk[w].req)
           /\ wk' = [wk EXCEPT ![w] = [pc |-> "recv", req |-> 0]]
           /\ U(<<kind, cmdCtx, ctx, gi, reqs, reqsClosed, cp, results, resultsClosed, errc, errcClosed, done, lg, ed, rn, printed, errlog, scanned, panic>>)
WErr(w) == /\ wk[w].pc = "err"
           /\ \/ ctx /\ U(<<errc, panic>>)
              \/ Len(errc) < CapErr /\ errc' = Append(errc, wk[w].req) /\ panic' = (panic \/ errcClosed)
           /\ wk' = [wk EXCEPT ![w] = [pc |-> "recv", req |-> 0]]
           /\ U(<<kind, cmdCtx, ctx, gi, reqs, reqsClosed, internal, cp, results, resultsClosed, errcClosed, done, lg, ed, rn, printed, errlog, scanned>>)
Join1 == /\ \A w \in Wk : wk[w].pc = "exit" /\ ~errcClosed /\ errcClosed' = TRUE
         /\ U(<<kind, cmdCtx, ctx, gi, reqs, reqsClosed, wk, internal, cp, results, resultsClosed, errc, done, lg, ed, rn, printed, errlog, scanned, panic>>)
Join2 == /\ errcClosed /\ ~done /\ done' = TRUE
         /\ U(<<kind, cmdCtx, ctx, gi, reqs, reqsClosed, wk, internal, cp, results, resultsClosed, errc, errcClosed, lg, ed, rn, printed, errlog, scanned, panic>>)
Copy1 == /\ cp = 0 /\ ~resultsClosed
         /\ \/ cmdCtx /\ resultsClosed' = TRUE /\ U(<<internal, cp>>)
            \/ internal # <<>> /\ cp' = Head(internal) /\ internal' = Tail(internal) /\ U(resultsClosed)
         /\ U(<<kind, cmdCtx, ctx, gi, reqs, reqsClosed, wk, results, errc, errcClosed, done, lg, ed, rn, printed, errlog, scanned, panic>>)
Copy2 == /\ cp # 0
         /\ \/ cmdCtx /\ resultsClosed' = TRUE /\ cp' = 0 /\ U(results)
            \/ Len(results) < CapRes /\ results' = Append(results, cp) /\ cp' = 0 /\ U(resultsClosed)
         /\ U(<<kind, cmdCtx, ctx, gi, reqs, reqsClosed, wk, internal, errc, errcClosed, done, lg, ed, rn, printed, errlog, scanned, panic>>)
Log == /\ lg = "run"
       /\ \/ ctx /\ lg' = "exit" /\ U(<<results, printed>>)
          \/ results # <<>> /\ printed' = Append(printed, Head(results)) /\ results' = Tail(results) /\ U(lg)
          \/ results = <<>> /\ resultsClosed /\ lg' = "exit" /\ U(<<results, printed>>)
       /\ U(<<kind, cmdCtx, ctx, gi, reqs, reqsClosed, wk, internal, cp, resultsClosed, errc, errcClosed, done, ed, rn, errlog, scanned, panic>>)
ErrDrain == /\ ed = "run"
            /\ \/ errc # <<>> /\ errlog' = Append(errlog, Head(errc)) /\ errc' = Tail(errc) /\ U(ed)
               \/ errc = <<>> /\ errcClosed /\ ed' = "exit" /\ U(<<errc, errlog>>)
            /\ U(<<kind, cmdCtx, ctx, gi, reqs, reqsClosed, wk, internal, cp, results, resultsClosed, errcClosed, done, lg, rn, printed, scanned, panic>>)
Idle == internal = <<>> /\ results = <<>> /\ cp = 0
RunDone == /\ rn = "waitdone" /\ done /\ rn' = "delay"
           /\ U(<<kind, cmdCtx, ctx, gi, reqs, reqsClosed, wk, internal, cp, results, resultsClosed, errc, errcClosed, done, lg, ed, printed, errlog, scanned, panic>>)
RunCancel == /\ rn = "delay" /\ (DelayLongEnough => Idle) /\ rn' = "cancelled" /\ ctx' = TRUE
             /\ U(<<kind, cmdCtx, gi, reqs, reqsClosed, wk, internal, cp, results, resultsClosed, errc, errcClosed, done, lg, ed, printed, errlog, scanned, panic>>)
Return == /\ rn # "returned" /\ lg = "exit" /\ ed = "exit" /\ rn' = "returned"
          /\ U(<<kind, cmdCtx, ctx, gi, reqs, reqsClosed, wk, internal, cp, results, resultsClosed, errc, errcClosed, done, lg, ed, printed, errlog, scanned, panic>>)
Cancel == /\ AllowCancel /\ ~cmdCtx /\ cmdCtx' = TRUE /\ ctx' = TRUE
          /\ U(<<kind, gi, reqs, reqsClosed, wk, internal, cp, results, resultsClosed, errc, errcClosed, done, lg, ed, rn, printed, errlog, scanned, panic>>)
Next == GenSend \/ GenClose \/ Join1 \/ Join2 \/ Copy1 \/ Copy2 \/ Log \/ ErrDrain \/ RunDone \/ RunCancel \/ Return \/ Cancel
        \/ \E w \in Wk : WRecv(w) \/ WScanBegin(w) \/ WScanEnd(w) \/ WPut(w) \/ WErr(w)
Spec == Init /\ [][Next]_vars /\ WF_vars(Next)
Set(q) == {q[i] : i \in 1..Len(q)}
ProbedAtMostOnce == \A r \in Req : scanned[r] <= 1
NoPanic == ~panic
NoDupLines == \A i, j \in 1..Len(printed) : i # j => printed[i] # printed[j]
OnlyHitsPrinted == \A i \in 1..Len(printed) : kind[printed[i]] = "hit"
DoneAfterAll == done => \A w \in Wk : wk[w].pc = "exit"
Exact == (rn = "returned" /\ ~cmdCtx) =>
           /\ \A r \in Req : scanned[r] = IF kind[r] = "reqerr" THEN 0 ELSE 1
           /\ Set(printed) = {r \in Req : kind[r] = "hit"}
           /\ Set(errlog) = {r \in Req : kind[r] \in {"fail", "reqerr"}} /\ Len(errlog) = Cardinality(Set(errlog))
\* failures are logged before the call returns whatever the exit delay (the error stream is drained to its end, it does not stop at the
\* cancellation that ends the delay)
ErrsExact == (rn = "returned" /\ ~cmdCtx) => (Set(errlog) = {r \in Req : kind[r] \in {"fail", "reqerr"}} /\ Len(errlog) = Cardinality(Set(errlog)))
Returns == <>(rn = "returned")
(* ---- refinement to the seam-level specification AppScanObs ---- *)
oBusy == {r \in Req : \E w \in Wk : wk[w].pc = "scanning" /\ wk[w].req = r}
oEnded == {r \in Req : scanned[r] >= 1 /\ r \notin oBusy /\ ~(\E w \in Wk : wk[w].pc = "scan" /\ wk[w].req = r)}
Obs == INSTANCE AppScanObs WITH total <- R, nw <- W, gen <- gi - 1,
          kHit <- {r \in Req : r < gi /\ kind[r] = "hit"}, kMiss <- {r \in Req : r < gi /\ kind[r] = "miss"},
          kFail <- {r \in Req : r < gi /\ kind[r] = "fail"}, kReqErr <- {r \in Req : r < gi /\ kind[r] = "reqerr"},
          busy <- oBusy, ended <- oEnded, printed <- Set(printed), errs <- Set(errlog),
          done <- done, returned <- (rn = "returned"), cancelled <- cmdCtx, exact <- DelayLongEnough,
          limited <- FALSE, charged <- 0
ObsSpec == Obs!ASpec
===============================================================================
