SPECIFICATION Spec
CONSTANTS Per = 3 B = 1 K = 6 MaxT = 18 MaxSend = 1 MaxLate = 1
INVARIANTS ChargedOnce Spacing
CHECK_DEADLOCK FALSE
