SPECIFICATION Spec
CONSTANTS Addr = {1, 2, 3} Mac = {"a", "b", "c"} MaxLines = 3 NReq = 2 HasGw = TRUE
INVARIANTS LastWins DstMacRight NoForeignMac
CHECK_DEADLOCK FALSE
