SPECIFICATION TSpec
CONSTANTS Addr = {1, 2, 3, 4} Port = {1, 2, 3} MaxLines = 4 Fixed = TRUE
CONSTRAINT HighWater
INVARIANT AtEnd
POSTCONDITION TraceAccepted
CHECK_DEADLOCK FALSE
