SPECIFICATION Spec
CONSTANTS Addr = {1, 2} Port = {1, 2} MaxLines = 2 Fixed = FALSE
INVARIANTS PassExact Confined MacRight NoMacIsError BadEntryOneError NeighboursIntact NoBorrowedAddress
CHECK_DEADLOCK FALSE
