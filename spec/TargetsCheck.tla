---------------------------- MODULE TargetsCheck ----------------------------
(* C01 / C02 on concrete IPv4 arithmetic: the histogram of requests that one pass of the real   *)
(* generator stack produced for (subnet, port ranges, exclusion list) must equal Denote(target): *)
(* every address sharing the prefix (base aligned or not), times every port of every range       *)
(* counted with multiplicity (overlapping ranges count twice), minus excluded addresses.         *)
EXTENDS IPv4, TLC, Json, IOUtils
Runs == ndJsonDeserialize(IOEnv.VERIF_TRACE)
PortCount(ranges, p) == Cardinality({i \in 1..Len(ranges) : ranges[i].lo <= p /\ p <= ranges[i].hi})
Ports(ranges) == UNION {ranges[i].lo..ranges[i].hi : i \in 1..Len(ranges)}
Excluded(ip, excl) == \E i \in 1..Len(excl) : InNet(ip, excl[i])
Addrs(t) == {a \in NetAddrs(t.net) : ~Excluded(a, t.exclude)}
\* expected bag as a set of <<ip, port, count>> triples
Denote(t) == IF t.ranges = <<>> THEN {<<a, 0, 1>> : a \in Addrs(t)}
             ELSE {<<a, p, PortCount(t.ranges, p)>> : a \in Addrs(t), p \in Ports(t.ranges)}
Observed(h) == {<<h[i].ip, h[i].port, h[i].n>> : i \in 1..Len(h)}
\* an exclusion file that cannot be read completely (over-long line) must stop the command with an error: nothing is generated
RunOK(r) == IF r.refused THEN (r.longLine /\ r.hist = <<>>)
            ELSE /\ ~r.longLine
                 /\ Cardinality(Observed(r.hist)) = Len(r.hist)       \* one histogram entry per key
                 /\ Observed(r.hist) = Denote(r.target)
                 /\ r.errors = 0
VARIABLE l
Init == l = 1
Next == l <= Len(Runs) /\ RunOK(Runs[l]) /\ l' = l + 1
TSpec == Init /\ [][Next]_l
HighWater == TLCSet(1, IF l > TLCGet(1) THEN l ELSE TLCGet(1))
ASSUME TLCSet(1, 0)
TraceAccepted == IF TLCGet(1) = Len(Runs) + 1 THEN PrintT(<<"TRACE ACCEPTED", Len(Runs)>>)
                 ELSE Print(<<"REJECTED at event", TLCGet(1), [id |-> Runs[TLCGet(1)].id, target |-> Runs[TLCGet(1)].target]>>, FALSE)
=============================================================================
