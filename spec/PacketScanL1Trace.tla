------------------------- MODULE PacketScanL1Trace -------------------------
(* Step-level conformance of the real generator.go / sender.go goroutines to the   *)
(* goroutine-level model PacketScan (C07 / C12). The Go director (gate hooks,      *)
(* build tag verif) lets exactly one goroutine run from one gate to the next and   *)
(* logs that step: process, worker, the program point it left and the one it       *)
(* reached, plus the request / buffer it carries. Each logged step must be the     *)
(* model action between those two program points. Outcomes the hooks cannot see    *)
(* (a frame dropped or delivered by a select that also saw the cancellation) are   *)
(* left to TLC. The invariants of PacketScan are evaluated in every state reached. *)
EXTENDS PacketScan, Json, IOUtils
Trace == ndJsonDeserialize(IOEnv.VERIF_TRACE)
VARIABLES l
tvars == <<vars, l>>
Ev == Trace[l]
Is(e) == l <= Len(Trace) /\ Ev.ev = e /\ l' = l + 1
Step(p, a, b) == Is("Step") /\ Ev.p = p /\ Ev.from = a /\ Ev.to = b
ToSet(q) == {q[i] : i \in 1..Len(q)}
AllDone == /\ s.pc = "exit" /\ errSeenClosed /\ mergedClosed /\ reqsClosed
           /\ \A w \in Wk : outClosed[w] /\ m[w].pc = "exit"

InitWith(re) ==
  /\ ctx' = FALSE /\ gi' = 1 /\ reqErr' = re
  /\ reqs' = <<>> /\ reqsClosed' = FALSE
  /\ f' = [w \in Wk |-> [pc |-> "recv", pkt |-> NoPkt]]
  /\ out' = [w \in Wk |-> <<>>] /\ outClosed' = [w \in Wk |-> FALSE]
  /\ m' = [w \in Wk |-> [pc |-> "recv", pkt |-> NoPkt]]
  /\ merged' = <<>> /\ mergedClosed' = FALSE
  /\ s' = [pc |-> "recv", pkt |-> NoPkt]
  /\ errc' = <<>> /\ errcClosed' = FALSE /\ done' = FALSE
  /\ free' = Buf /\ content' = [b \in Buf |-> 0]
  /\ wire' = <<>> /\ failed' = {} /\ delivered' = <<>> /\ panic' = FALSE /\ built' = {} /\ errSeenClosed' = FALSE
TInit == Init /\ reqErr = {} /\ l = 1
\* a new run starts only when the previous one has come to its end (every goroutine gone, error stream seen closed)
TReset == Is("Reset") /\ (l = 1 \/ AllDone) /\ Ev.R = R /\ Ev.W = W /\ InitWith(ToSet(Ev.reqErr))

TGen == \/ Step("gen", "idle", "sent") /\ GenSend /\ gi = Ev.req
        \/ Step("gen", "idle", "closed") /\ GenClose
TF == LET w == Ev.w IN
      \/ Step("f", "recv", "got") /\ FRecv(w) /\ f'[w].pc \in {"send", "getbuf"} /\ f'[w].pkt.req = Ev.req
                                  /\ (Ev.err <=> f'[w].pkt.kind = "err")
      \/ Step("f", "recv", "exit") /\ FRecv(w) /\ f'[w].pc = "exit"
      \/ Step("f", "got", "send") /\ f[w].pc = "send" /\ f[w].pkt.kind = "err" /\ UNCHANGED vars   \* error request: no buffer, straight to the send
      \/ Step("f", "got", "filling") /\ FFillBegin(w) /\ f'[w].pkt.buf = Ev.buf
      \/ Step("f", "filling", "send") /\ FFillEnd(w) /\ (Ev.ok <=> f'[w].pkt.kind = "pkt")
      \/ Step("f", "send", "recv") /\ FSend(w)
      \/ Step("f", "exit", "done") /\ FExit(w)
TM == LET w == Ev.w IN
      \/ Step("m", "recv", "send") /\ MRecv(w) /\ m'[w].pc = "send" /\ m'[w].pkt.req = Ev.req
      \/ Step("m", "recv", "exit") /\ MRecv(w) /\ m'[w].pc = "exit"
      \/ Step("m", "send", "recv") /\ MSend(w) /\ m'[w].pc = "recv"
      \/ Step("m", "send", "exit") /\ MSend(w) /\ m'[w].pc = "exit"
TMClose == Step("mclose", "close", "closed") /\ MClose
TS == \/ Step("s", "recv", "errsend") /\ SRecv /\ s'.pc = "errsend" /\ s'.pkt.req = Ev.req
      \/ Step("s", "recv", "write") /\ SRecv /\ s'.pc = "write" /\ s'.pkt.req = Ev.req /\ s'.pkt.buf = Ev.buf
      \/ Step("s", "recv", "close") /\ SRecv /\ s'.pc = "close"
      \/ Step("s", "errsend", "recv") /\ SErrSend /\ s'.pc = "recv"
      \/ Step("s", "errsend", "free") /\ SErrSend /\ s'.pc = "free"
      \/ Step("s", "write", "writing") /\ SWriteBegin /\ ~Ev.doneClosed
      \* the bytes the writer saw, at entry and at exit of the call, are the frame built for that request
      \/ Step("s", "writing", "free") /\ SWriteEnd /\ s'.pc = "free" /\ Ev.bytes = content[s.pkt.buf] /\ Ev.bytes = s.pkt.req /\ Ev.same
      \/ Step("s", "writing", "errsend") /\ SWriteEnd /\ s'.pc = "errsend"
      \/ Step("s", "free", "recv") /\ SFree /\ s.pkt.buf = Ev.buf
      \/ Step("s", "close", "exit") /\ SClose
TE == \/ Step("e", "idle", "got") /\ ErrRecv /\ Head(errc) = <<Ev.kind, Ev.req>>
      \/ Step("e", "idle", "closed") /\ ErrSeeClosed
TCancel == Is("Cancel") /\ Cancel
\* End: the director saw every goroutine leave and the error stream closed
TEnd == Is("End") /\ AllDone /\ UNCHANGED vars
TNext == TReset \/ TGen \/ TF \/ TM \/ TMClose \/ TS \/ TE \/ TCancel \/ TEnd
TSpec == TInit /\ [][TNext]_tvars
HighWater == TLCSet(1, IF l > TLCGet(1) THEN l ELSE TLCGet(1))
ASSUME TLCSet(1, 0)
TraceAccepted == IF TLCGet(1) = Len(Trace) + 1 THEN PrintT(<<"TRACE ACCEPTED", Len(Trace)>>)
                 ELSE Print(<<"REJECTED at event", TLCGet(1), Trace[TLCGet(1)]>>, FALSE)
===============================================================================
