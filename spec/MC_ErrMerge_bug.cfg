SPECIFICATION Spec
CONSTANTS NIn = 2 NItems = 2 CapOut = 1 Bug = "closeOnCtx"
INVARIANTS NoPanic NoDupNoInvent AllDelivered

CHECK_DEADLOCK FALSE
