SPECIFICATION Spec
CONSTANTS Vpn = TRUE Fixed = TRUE MaxFrames = 3
INVARIANTS AtMostOnePerFrame NoPhantom ChainPresent
CHECK_DEADLOCK FALSE
