------------------------------ MODULE WireTrace ------------------------------
(* Binding for C05 (probe frames), C03 (reply shape <=> reported, record from the frame) and C06 (no phantom    *)
(* records): events recorded from the real fillers, BPF filters and packet processors are judged by the       *)
(* byte-level references WireBytes (encoders) and WireDecode (decoder).                                        *)
(*   Fill   {kind, vpn, req, opts, bytes}             -> WireBytes!ProbeOK                                      *)
(*   Reply  {cfg, bytes, reported, rec}               -> reported <=> ReplyShape, rec = RecordOf                *)
(*   Frame  {scan, vpn, bytes, status, nrec, rec}     -> at most one record, only from a chain of this frame    *)
EXTENDS FiniteSets, TLC, Json, IOUtils
WB == INSTANCE WireBytes
WD == INSTANCE WireDecode
LOCAL INSTANCE Integers
LOCAL INSTANCE Sequences
Trace == ndJsonDeserialize(IOEnv.VERIF_TRACE)
FillOK(e) == WB!ProbeOK(e)
\* C03: for an unfragmented well-formed frame, reported iff reply-shaped, and the record is the frame's
RecEq(cfg, r, x) ==
   CASE cfg.scan = "arp" -> r.ip = x.ip /\ r.mac = x.mac
     [] cfg.scan \in {"udp", "icmp"} -> r.scan = x.scan /\ r.ip = x.ip /\ r.ttl = x.ttl /\ r.type = x.type /\ r.code = x.code
     [] OTHER -> r.scan = x.scan /\ r.ip = x.ip /\ r.port = x.port /\ r.flags = x.flags
ReplyOK(e) == LET shaped == WD!ReplyShape(e.cfg, e.bytes) IN
   /\ e.status = "ok"
   /\ e.nrec = (IF shaped THEN 1 ELSE 0)
   /\ (shaped => RecEq(e.cfg, e.rec, WD!RecordOf(e.cfg, e.bytes)))
\* C06: arbitrary bytes. No crash; at most one record; a record only if the frame contains a header chain of the scanned
\* protocol, and then every field comes from that chain of this very frame
FrameOK(e) ==
   /\ e.status \in {"ok", "err"}
   /\ e.nrec \in {0, 1}
   /\ (e.nrec = 1 =>
        IF e.scan = "arp"
        THEN /\ WD!EthOK(FALSE, e.bytes, 2054) /\ WD!ARPAt(e.bytes, 15).ok
             /\ e.rec.ip = WD!ARPAt(e.bytes, 15).spa /\ e.rec.mac = WD!ARPAt(e.bytes, 15).sha
        ELSE LET l4 == IF e.scan \in {"udp", "icmp"} THEN "icmp" ELSE "tcp" IN
             \E c \in WD!Chains(e.vpn, e.bytes, l4) :
                /\ e.rec.ip = c.ip.src
                /\ (l4 = "tcp" => e.rec.port = c.l4.sport /\ (e.rec.flagsKnown => e.rec.flags = SelectSeq(WD!FlagLetters(c.l4.flags9), LAMBDA x : x # "")))
                /\ (l4 = "icmp" => e.rec.ttl = c.ip.ttl /\ e.rec.type = c.l4.type /\ e.rec.code = c.l4.code))
\* a batch of frames through a scan method that reports asynchronously (built by the command's own constructor): the records, in order,
\* are exactly those of the reply-shaped frames, in order
ReplyBatchOK(e) == LET idx == SelectSeq([i \in 1..Len(e.frames) |-> i], LAMBDA i : WD!ReplyShape(e.cfg, e.frames[i])) IN
   /\ \A i \in 1..Len(e.status) : e.status[i] = "ok"
   /\ Len(e.recs) = Len(idx)
   /\ \A k \in 1..Len(idx) : RecEq(e.cfg, e.recs[k], WD!RecordOf(e.cfg, e.frames[idx[k]]))
EventOK(e) == CASE e.ev = "Fill" -> FillOK(e) [] e.ev = "Reply" -> ReplyOK(e) [] e.ev = "ReplyBatch" -> ReplyBatchOK(e) [] e.ev = "Frame" -> FrameOK(e) [] OTHER -> FALSE
VARIABLE l
Init == l = 1
Next == l <= Len(Trace) /\ EventOK(Trace[l]) /\ l' = l + 1
TSpec == Init /\ [][Next]_l
HighWater == TLCSet(1, IF l > TLCGet(1) THEN l ELSE TLCGet(1))
ASSUME TLCSet(1, 0)
TraceAccepted == IF TLCGet(1) = Len(Trace) + 1 THEN PrintT(<<"TRACE ACCEPTED", Len(Trace)>>)
                 ELSE Print(<<"REJECTED at event", TLCGet(1), [ev |-> Trace[TLCGet(1)].ev, id |-> Trace[TLCGet(1)].id]>>, FALSE)
==============================================================================
