SPECIFICATION Spec
CONSTANTS Per = 2 B = 2 K = 6 MaxT = 18 MaxSend = 1 MaxLate = 1
INVARIANTS SpacingTight
CHECK_DEADLOCK FALSE
