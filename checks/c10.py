"""C10 — Elasticsearch/Docker probes: reported iff JSON info was served; time-bounded.
Spec: HttpProbe.tla (request 1 decides, request 2 best effort, docker's API negotiation; TLC exhaustive over all response pairs),
HttpProbeTrace.tla (what the real scanners did against scripted HTTP/HTTPS loopback servers)."""
import os
import vf

LEVEL = "model_checking"
LEVEL_TEXT = ("TLC checks HttpProbe for every (probe, negotiation outcome, response to request 1, response to request 2) over 12 response kinds (refused, TLS "
              "failure, stalled headers, object, empty object, array, scalar, null, truncated, non-JSON, stalled body, endless body): HitIffJsonObject, "
              "SecondaryHarmless, TimeBounded, Ends. Every combination TLC reaches is replayed against the real elastic.NewScanner / docker.NewScanner "
              "over http and https scripted servers; TLC validates outcome, the record's host / port / scheme and the duration (per-request timeout for "
              "elastic, whole-probe timeout for docker, + 900 ms slack).")
NOTE = ("Trusted: TLC; the scripted HTTP server (raw TCP, self-signed TLS). The HTTP status is not part of the statement (a 404 with an object body is "
        "reported); an object followed by trailing garbage is left open. Docker's decode happens inside the client library: a `null` body is indistinguishable "
        "from `{}` there (known finding F08).")
TECHNIQUE = "TLA+ model checking (TLC) + spec-generated server behaviours replayed against the real scanners, outcomes validated by TLC"
DESIGN_REF = "DESIGN.md section 5, C10"


def reproduced(ctx, bad):
    """runs the combination of a rejected probe alone, twice; True iff HttpProbeTrace rejects its outcome (same scheme) both times"""
    binary = ctx.go_build_test("./pkg/scan/" + bad["probe"])
    for k in range(2):
        sp = os.path.join(ctx.scratch, "c10-confirm-scen.ndjson")
        op = os.path.join(ctx.scratch, "c10-confirm-out-%d.ndjson" % k)
        vf.write_ndjson(sp, [{"probe": bad["probe"], "ping": bad["ping"], "r1": bad["r1"], "r2": bad["r2"]}])
        rc, out = ctx.go_run_test(binary, "^TestVfProbe$", {"VF_SCENARIOS": sp, "VF_OUT": op}, 300)
        if rc != 0:
            return True
        evs = [e for e in vf.read_ndjson(op) if e["proto"] == bad["proto"]]
        vf.write_ndjson(op, evs)
        ok, _ = ctx.tlc_trace("HttpProbeTrace", op, timeout=600)
        if ok:
            return False
    return True


def run(ctx):
    ctx.cov["rule"] = ("all (probe, ping, r1, r2) combinations of the model that a server can realise x {http, https}; distinct = combinations x scheme")
    ctx.tlc_mc("HttpProbe", "MC_HttpProbe", workers=4, timeout=600)
    r = ctx.tlc("HttpProbe", "Gen_HttpProbe", workers=1, timeout=600)
    sc = [d for d in r.printed_json() if "probe" in d]
    if len(sc) < 200:
        raise vf.Inconclusive("scenario generation produced only %d combinations" % len(sc))
    if ctx.tier == "quick":
        # request 2 cannot change the verdict: keep every r1 with a covering subset of r2 (all r2 with the two object r1's)
        keep_r2 = {"object", "stallHeaders", "notJson", "refuse"}
        sc = [d for d in sc if d["r1"] in ("object", "emptyObject") or d["r2"] in keep_r2]
    events = []
    import concurrent.futures

    def one(pkg):
        binary = ctx.go_build_test("./pkg/scan/" + pkg)
        nsh = 6
        parts = [[d for i, d in enumerate(x for x in sc if x["probe"] == pkg) if i % nsh == k] for k in range(nsh)]
        envs = []
        for k, part in enumerate(parts):
            sp = os.path.join(ctx.scratch, "c10-%s-scen-%d.ndjson" % (pkg, k))
            vf.write_ndjson(sp, part)
            envs.append({"VF_SCENARIOS": sp, "VF_OUT": os.path.join(ctx.scratch, "c10-%s-%d.ndjson" % (pkg, k))})
        res = vf.go_run_many(ctx, binary, "^TestVfProbe$", envs, timeout=3000)
        ev = []
        for (rc, out), e in zip(res, envs):
            if rc != 0:
                ce = vf.crash_events(ctx, rc, out, pkg)
                ctx.violation("C10:%s:crash" % pkg, "the %s scanner crashed: %s" % (pkg, ce[1]["text"]), replay={"output": out[-20000:]})
                continue
            ev += vf.read_ndjson(e["VF_OUT"])
        return ev
    with concurrent.futures.ThreadPoolExecutor(max_workers=2) as ex:
        for ev in ex.map(one, ["elastic", "docker"]):
            events += ev
    ctx.cov["traces_validated_against_impl"] += len(events)
    ctx.count(len(events), [(e["probe"], e["proto"], e["ping"], e["r1"], e["r2"]) for e in events])
    rest = events
    seen = set()
    while rest:
        p = os.path.join(ctx.scratch, "c10-all.ndjson")
        vf.write_ndjson(p, rest)
        ok, info = ctx.tlc_trace("HttpProbeTrace", p, timeout=3000)
        if ok:
            break
        bad = rest[info["index"] - 1]
        key = "C10:%s:r1=%s:%s" % (bad["probe"], bad["r1"], bad["result"])
        if key not in seen and not reproduced(ctx, bad):
            # sequential code against a scripted server: not shown again by the same combination run alone (twice) = disturbance of the harness
            ctx.notes.append("a rejected probe (%s ping=%s r1=%s r2=%s -> %s in %d ms) was not reproduced in two runs of the same combination alone" %
                             (bad["probe"], bad["ping"], bad["r1"], bad["r2"], bad["result"], bad["durMs"]))
            rest = rest[:info["index"] - 1] + rest[info["index"]:]
            continue
        if key not in seen:
            seen.add(key)
            ctx.violation(key, "%s probe (%s) with ping=%s r1=%s r2=%s -> %s in %d ms, record host=%s proto=%s: not what HttpProbe allows" %
                          (bad["probe"], bad["proto"], bad["ping"], bad["r1"], bad["r2"], bad["result"], bad["durMs"], bad["recHost"], bad["recProto"]),
                          replay={"property": "C10", "trace_spec": "HttpProbeTrace", "run": [bad]})
        if len(seen) >= 8:
            break
        rest = rest[:info["index"] - 1] + rest[info["index"]:]
    if events:
        vf.selftest_event(ctx, "HttpProbeTrace", dict(events[0], durMs=10 ** 7), "duration of an accepted probe set to 10^7 ms")
    for e in events[:3]:
        ctx.sample(e)
    # socket-level tier: the real binary - -t reaches every request of a probe (servers that accept and stall), and with 16 workers against
    # 64 distinct servers every record names the target its own probe talked to
    from checks import wire_tier as wt
    n3, rej = wt.run_wire(ctx, select=lambda s: s["name"] in ("elastic-timeout-flag", "docker-timeout-flag"), label="c10t", focus="time")
    wt.report(ctx, "C10", rej)
    n4, rej = wt.run_wire(ctx, select=lambda s: s["name"] in ("elastic-parallel", "docker-parallel", "elastic-redirect", "docker-redirect", "elastic-redirect-same-host", "docker-redirect-same-host", "elastic-fd-limit", "docker-fd-limit"), label="c10p", focus="coverage")
    wt.report(ctx, "C10", rej)
