SPECIFICATION Spec
CONSTANTS R = 3 W = 1 NBuf = 3 CapReq = 1 CapOut = 1 CapMerged = 2 CapErr = 1 AllowCancel = TRUE Bug = "none"
INVARIANTS WireFaithful WireNoDup NoCancelComplete DoneAfterLastWrite ErrorsNeverInvented
PROPERTIES ObsSpec 
CHECK_DEADLOCK FALSE
