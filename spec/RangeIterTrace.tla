---------------------------- MODULE RangeIterTrace ----------------------------
(* C04 binding: what the real newRangeIterator / Next produced for known random  *)
(* draws must be the walk that RangeIter.tla defines:                            *)
(*   the group used is a row of the (certified) table with P > n, its generator g *)
(*   has order P-1, and the outputs are the elements <= n of the walk            *)
(*   x -> x*g mod P from the first output until the walk returns to it.          *)
(* Numbers are BigNat limbs; the draws r1, r2 (1..2^63) are bit sequences.       *)
(* One event per iteration, so validation is one step per iteration.             *)
EXTENDS BigNat, FiniteSets, TLC, Json, IOUtils
Trace == ndJsonDeserialize(IOEnv.VERIF_TRACE)
Table == Trace[1].rows           \* the table extracted from the working tree: rows <<P, G, N>> as limbs
RowFor(n) == LET idx == {i \in 1..Len(Table) : Lt(n, Table[i][1])} IN
             IF idx = {} THEN 0 ELSE CHOOSE i \in idx : \A j \in idx : i <= j      \* sort.Search: first P > n
\* next element <= n on the walk after a (at most 80 multiplications: rows are about a factor 2 apart);
\* returns [v, wrapped]: wrapped = the walk hit `home` first
RECURSIVE NextLEr(_, _, _, _, _, _)
NextLEr(I, g, P, n, home, k) ==
   IF k = 0 THEN [I |-> I, found |-> FALSE, wrapped |-> FALSE]
   ELSE LET J == MulMod(I, g, P) IN
        IF Eq(J, home) THEN [I |-> J, found |-> TRUE, wrapped |-> TRUE]
        ELSE IF Le(J, n) THEN [I |-> J, found |-> TRUE, wrapped |-> FALSE]
        ELSE NextLEr(J, g, P, n, home, k - 1)
NextLE(a, g, P, n, home) == NextLEr(a, g, P, n, home, 80)
\* the factorisation of P-1 for every row (certified by CyclicTable on the same table): cofactors (P-1)/q
Cofs == Trace[1].cofs            \* Cofs[r] = sequence of (P_r - 1)/q, q prime divisor of P_r - 1
RowOf(P) == LET idx == {i \in 1..Len(Table) : Eq(Table[i][1], P)} IN IF idx = {} THEN 0 ELSE CHOOSE i \in idx : TRUE
\* g generates (Z/PZ)*: its order is P-1
IsGenerator(g, r) == LET P == Table[r][1] IN
   /\ Lt(<<0, 0>>, g) /\ Lt(g, P) /\ (Lt(One, g) \/ Eq(P, <<0, 2>>))
   /\ \A j \in 1..Len(Cofs[r]) : ~Eq(ExpMod(g, Cofs[r][j], P), One)
\* the recorded outputs follow the walk x -> x*g mod P step by step (elements above n skipped);
\* if the record is complete the walk returns to the first output right after the last one
OutsOK(e, g, P) ==
   /\ Len(e.outs) >= 1 /\ Le(e.outs[1], e.n) /\ Lt(<<0, 0>>, e.outs[1])
   /\ \A i \in 1..(Len(e.outs) - 1) : LET nx == NextLE(e.outs[i], g, P, e.n, e.outs[1]) IN
                                         nx.found /\ ~nx.wrapped /\ Eq(nx.I, e.outs[i + 1])
   /\ (e.complete => LET nx == NextLE(e.outs[Len(e.outs)], g, P, e.n, e.outs[1]) IN nx.found /\ nx.wrapped)
ToInt(a) == a[1] * 65536 + a[2]
WellFormed(e) == /\ \A i \in 1..Len(e.outs) : e.outs[i][1] >= 0 /\ e.outs[i][2] >= 0
                 /\ e.P[1] >= 0 /\ e.G[1] >= 0
\* The group actually used may be any row that is large enough and the generator any generator of it: the statement is
\* about the outputs. (RangeIter.tla models the choices the current code makes; this binding does not insist on them.)
IterOK(e) ==
   IF e.rejected THEN (IsZero(e.n) \/ e.negative \/ RowFor(e.n) = 0)           \* only sizes outside 1..P_max-1 may be rejected
   ELSE /\ ~IsZero(e.n) /\ ~e.negative /\ RowFor(e.n) # 0 /\ WellFormed(e)
        /\ RowOf(e.P) # 0 /\ Lt(e.n, e.P)
        /\ IsGenerator(e.G, RowOf(e.P))
        /\ OutsOK(e, e.G, e.P)
        \* a complete small sequence is checked directly: each of 1..n exactly once
        /\ ((e.complete /\ e.n[1] = 0 /\ e.n[2] <= 6000) =>
               /\ Len(e.outs) = e.n[2]
               /\ {ToInt(e.outs[i]) : i \in 1..Len(e.outs)} = 1..e.n[2])
        \* a complete long walk, projected by the harness to counts: a permutation of 1..n
        /\ (e.hasSummary => /\ Eq(e.count, e.n) /\ Eq(e.distinct, e.n) /\ Eq(e.min, One) /\ Eq(e.max, e.n))
VARIABLE l
Init == l = 2
Next == l <= Len(Trace) /\ IterOK(Trace[l]) /\ l' = l + 1
TSpec == Init /\ [][Next]_l
HighWater == TLCSet(1, IF l > TLCGet(1) THEN l ELSE TLCGet(1))
ASSUME TLCSet(1, 0)
TraceAccepted == IF TLCGet(1) = Len(Trace) + 1 THEN PrintT(<<"TRACE ACCEPTED", Len(Trace)>>)
                 ELSE Print(<<"REJECTED at event", TLCGet(1), [n |-> Trace[TLCGet(1)].n, rejected |-> Trace[TLCGet(1)].rejected, seed |-> Trace[TLCGet(1)].seed]>>, FALSE)
===============================================================================
