SPECIFICATION Spec
CONSTANTS R = 3 W = 2 CapReq = 1 CapRes = 1 CapErr = 1 AllowCancel = FALSE DelayLongEnough = FALSE
INVARIANTS ProbedAtMostOnce NoPanic NoDupLines OnlyHitsPrinted DoneAfterAll ErrsExact
PROPERTIES Returns ObsSpec
CHECK_DEADLOCK FALSE
