------------------------- MODULE PacketScanObsTrace -------------------------
(* Trace validation for C07 / C12 / C15 (packet path): events recorded at the   *)
(* seams of the real pipeline must be a behaviour of PacketScanObs. All events  *)
(* carry their arguments, so validation is linear in the trace length.          *)
EXTENDS PacketScanObs, Json, TLC, IOUtils
Trace == ndJsonDeserialize(IOEnv.VERIF_TRACE)
VARIABLES l,
          ex     \* this run promises completeness at return (exit delay >= default, error log keeps up, no Ctrl-C)
tvars == <<ovars, l, ex>>
TInit == OInitRun(0, FALSE, 1) /\ l = 1 /\ ex = FALSE
Ev == Trace[l]
Is(e) == l <= Len(Trace) /\ Ev.ev = e /\ l' = l + 1
\* a new run may start only when the previous one ended cleanly: error stream observed closed
TReset == /\ Is("Reset") /\ (errClosed \/ l = 1)
          /\ total' = Ev.n /\ nw' = Ev.w /\ gen' = 0 /\ genErr' = {} /\ fillBusy' = {} /\ fillOk' = {} /\ fillErr' = {}
          /\ wBusy' = 0 /\ wOk' = {} /\ wErr' = {} /\ pending' = {} /\ seen' = {}
          /\ done' = FALSE /\ errClosed' = FALSE /\ cancelled' = FALSE /\ limited' = Ev.limited /\ charged' = 0 /\ ex' = Ev.exact
\* startScanEngine returned: its error drain has seen the end of the error stream; unless it was cancelled from
\* outside, completion had been signalled and (under the proviso) every failure has been logged
Returned == /\ Is("Returned") /\ ~errClosed
            /\ (cancelled \/ (done /\ wBusy = 0 /\ (ex => seen = pending)))      \* after Ctrl-C a leaked sender may still finish one write
            /\ errClosed' = TRUE
            /\ UNCHANGED <<total, nw, gen, genErr, fillBusy, fillOk, fillErr, wBusy, wOk, wErr, pending, seen, done, cancelled, limited, charged>>
TNext == \/ (TReset)
         \/ (Returned /\ UNCHANGED ex)
         \/ UNCHANGED ex /\ Is("Gen") /\ Gen(Ev.id, Ev.err)
         \/ UNCHANGED ex /\ Is("FillBegin") /\ FillBegin(Ev.id)
         \/ UNCHANGED ex /\ Is("FillEnd") /\ FillEnd(Ev.id, Ev.ok)
         \/ UNCHANGED ex /\ Is("Take") /\ Take
         \/ UNCHANGED ex /\ Is("WriteBegin") /\ WriteBegin(Ev.id) /\ ~Ev.doneClosed     \* done must not be closed when a write starts
         \/ UNCHANGED ex /\ Is("WriteEnd") /\ WriteEnd(Ev.id, Ev.ok) /\ Ev.same          \* bytes = what the filler built, unchanged during the call
         \/ UNCHANGED ex /\ Is("ErrSeen") /\ ErrSeen(Ev.kind, Ev.id)
         \/ UNCHANGED ex /\ Is("RcvFail") /\ RcvFail(Ev.id)
         \/ UNCHANGED ex /\ Is("DoneSeen") /\ DoneSeen
         \/ UNCHANGED ex /\ Is("ErrClosedSeen") /\ ErrClosedSeen
         \/ UNCHANGED ex /\ Is("Cancel") /\ Cancel
         \/ UNCHANGED ex /\ Is("Quiesced") /\ Quiesced
TSpec == TInit /\ [][TNext]_tvars
HighWater == TLCSet(1, IF l > TLCGet(1) THEN l ELSE TLCGet(1))
ASSUME TLCSet(1, 0)
TraceAccepted == IF TLCGet(1) = Len(Trace) + 1 THEN PrintT(<<"TRACE ACCEPTED", Len(Trace)>>)
                 ELSE Print(<<"REJECTED at event", TLCGet(1), Trace[TLCGet(1)]>>, FALSE)
\* evaluated at the end of each run only (set comparisons are linear in the run length)
CompleteAtEnd == errClosed => (Complete /\ NoInventedErrors /\ WrittenWereBuilt)
===============================================================================
