SPECIFICATION Spec
CONSTANTS Delay = 2 MaxT = 6 Probes = 2 AllowSigInt = TRUE CancelOnDone = FALSE
INVARIANTS NoEarlyCancel NoEarlyExit LateReplyTaken
PROPERTIES Exits
CHECK_DEADLOCK FALSE
