//go:build verif

package scan

// C07 / C12 / C15 harness (packet path): the real NewPacketSource + NewPacketMultiGenerator +
// packet.NewSender + packet.NewReceiver + NewPacketEngine (mergeErrChan included) between a
// recording RequestGenerator, PacketFiller, Limiter, Writer, Reader/Processor and error consumer.
// It drives and records; the verdict is TLC's (PacketScanObsTrace.tla).

import (
	"bytes"
	"context"
	"encoding/binary"
	"errors"
	"fmt"
	"math/rand"
	"net"
	"os"
	"runtime"
	"strconv"
	"sync"
	"sync/atomic"
	"testing"
	"time"

	"github.com/google/gopacket"
	"github.com/v-byte-cpu/sx/pkg/packet"
)

type vfPipeErr struct {
	kind string
	id   int
}

func (e *vfPipeErr) Error() string { return fmt.Sprintf("vf-%s-%d", e.kind, e.id) }

type vfPipeCfg struct {
	N          int     // requests
	W          int     // builders
	ReqErr     float64 // probability a request carries an error
	FillErr    float64
	WriteErr   float64
	RcvErrs    int  // frames whose processing fails, delivered by the reader at the start
	Limited    bool // rate limiter wrapper installed (counting limiter)
	ReqCap     int  // capacity of the request channel
	SlowErrUS  int  // error consumer delay per error
	Jitter     int  // max random delay (µs) at the seams, 0: none
	HoldWrites int  // writer waits until this many further fills completed (or 2 ms) before returning
	CancelAt   int  // cancel when the k-th seam event is logged (0: after quiescence)
	Procs      int  // GOMAXPROCS
	GenFails   bool // GenerateRequests itself returns an error
	RcvGate    bool // the first frame write returns only when the receiver has processed all RcvErrs frames (the sender is busy meanwhile)
}

type vfPipe struct {
	cfg       vfPipeCfg
	sink      *vfSink
	rnd       *rand.Rand // used only by the driver goroutine before the run starts
	reqErr    map[int]bool
	fillFail  map[int]bool
	writeFail map[int]bool
	gated     int64
	rcvSeen   int64
	built     sync.Map // id -> []byte
	fills     int64
	done      atomic.Value // <-chan interface{}
	cancel    context.CancelFunc
	nev       int
	cancelled bool
	stop      chan struct{}
	seenErrs  int64
	injected  int64
}

// ev logs one seam event; the wrapper that logs the CancelAt-th event also issues the cancel,
// under the log lock, so log order = real order with respect to the cancellation.
func (p *vfPipe) ev(m map[string]interface{}) {
	p.sink.mu.Lock()
	p.sink.logLocked(m)
	p.nev++
	if p.cfg.CancelAt > 0 && p.nev == p.cfg.CancelAt && !p.cancelled && !p.sink.sealed {
		p.cancelled = true
		p.sink.logLocked(map[string]interface{}{"ev": "Cancel"})
		p.cancel()
		close(p.stop)
	}
	p.sink.mu.Unlock()
}

func (p *vfPipe) jitter(r *rand.Rand) {
	if p.cfg.Jitter > 0 && r.Intn(4) == 0 {
		time.Sleep(time.Duration(r.Intn(p.cfg.Jitter)) * time.Microsecond)
	}
}

func vfIDToIP(id int) net.IP {
	return net.IPv4(10, byte(id>>16), byte(id>>8), byte(id)).To4()
}
func vfIPToID(ip net.IP) int {
	ip = ip.To4()
	return int(ip[1])<<16 | int(ip[2])<<8 | int(ip[3])
}

// request generator seam
func (p *vfPipe) GenerateRequests(ctx context.Context, _ *Range) (<-chan *Request, error) {
	if p.cfg.GenFails {
		p.ev(map[string]interface{}{"ev": "Gen", "id": 1, "err": true})
		atomic.AddInt64(&p.injected, 1)
		return nil, &vfPipeErr{"req", 1}
	}
	out := make(chan *Request, p.cfg.ReqCap)
	go func() {
		defer close(out)
		for i := 1; i <= p.cfg.N; i++ {
			req := &Request{DstIP: vfIDToIP(i), DstPort: uint16(i), SrcIP: net.IPv4(10, 255, 0, 1).To4()}
			if p.reqErr[i] {
				req = &Request{Err: &vfPipeErr{"req", i}}
			}
			// logged before the send: the request becomes visible to the workers with the send
			if ctx.Err() != nil {
				return
			}
			if p.reqErr[i] {
				atomic.AddInt64(&p.injected, 1)
			}
			p.ev(map[string]interface{}{"ev": "Gen", "id": i, "err": p.reqErr[i]})
			select {
			case <-ctx.Done():
				return
			case out <- req:
			}
		}
	}()
	return out, nil
}

// filler seam
func (p *vfPipe) Fill(buf gopacket.SerializeBuffer, r *Request) error {
	id := vfIPToID(r.DstIP)
	lr := rand.New(rand.NewSource(int64(id) * 2654435761))
	p.ev(map[string]interface{}{"ev": "FillBegin", "id": id})
	p.jitter(lr)
	payload := make([]byte, 16+lr.Intn(120))
	lr.Read(payload)
	binary.BigEndian.PutUint64(payload, uint64(id))
	if p.fillFail[id] {
		// a filler may fail after having written part of the frame
		if lr.Intn(2) == 0 {
			_ = gopacket.SerializeLayers(buf, gopacket.SerializeOptions{}, gopacket.Payload(payload[:8]))
		}
		atomic.AddInt64(&p.injected, 1)
		p.ev(map[string]interface{}{"ev": "FillEnd", "id": id, "ok": false})
		return &vfPipeErr{"fill", id}
	}
	if err := gopacket.SerializeLayers(buf, gopacket.SerializeOptions{}, gopacket.Payload(payload)); err != nil {
		panic(err)
	}
	cp := make([]byte, len(buf.Bytes()))
	copy(cp, buf.Bytes())
	p.built.Store(id, cp)
	atomic.AddInt64(&p.fills, 1)
	p.ev(map[string]interface{}{"ev": "FillEnd", "id": id, "ok": true})
	return nil
}

// limiter seam
type vfLimiter struct{ p *vfPipe }

func (l *vfLimiter) Take() time.Time {
	l.p.ev(map[string]interface{}{"ev": "Take"})
	return time.Now()
}

// writer / reader seam
type vfRW struct {
	p     *vfPipe
	reads int
}

func (w *vfRW) WritePacketData(pkt []byte) error {
	p := w.p
	entry := make([]byte, len(pkt))
	copy(entry, pkt)
	id := 0
	same := false
	if len(entry) >= 8 {
		cand := int(binary.BigEndian.Uint64(entry))
		if b, ok := p.built.Load(cand); ok {
			id = cand
			same = bytes.Equal(b.([]byte), entry)
		}
	}
	doneClosed := false
	if d, ok := p.done.Load().(<-chan interface{}); ok && d != nil {
		select {
		case <-d:
			doneClosed = true
		default:
		}
	}
	p.ev(map[string]interface{}{"ev": "WriteBegin", "id": id, "doneClosed": doneClosed})
	if p.cfg.RcvGate && atomic.CompareAndSwapInt64(&p.gated, 0, 1) {
		// the wire is busy with this frame for as long as the receive path needs to work through its burst of bad frames: the
		// receiver must not depend on the sender making progress
		deadline := time.Now().Add(10 * time.Second)
		for atomic.LoadInt64(&p.rcvSeen) < int64(p.cfg.RcvErrs) && time.Now().Before(deadline) {
			time.Sleep(200 * time.Microsecond)
		}
		if n := atomic.LoadInt64(&p.rcvSeen); n < int64(p.cfg.RcvErrs) {
			p.ev(map[string]interface{}{"ev": "Hang", "what": fmt.Sprintf("receiver processed %d of %d frames in 10 s while the sender was busy with one write", n, p.cfg.RcvErrs)})
		}
	}
	lr := rand.New(rand.NewSource(int64(id)*40503 + 7))
	if p.cfg.HoldWrites > 0 {
		target := atomic.LoadInt64(&p.fills) + int64(p.cfg.HoldWrites)
		deadline := time.Now().Add(2 * time.Millisecond)
		for atomic.LoadInt64(&p.fills) < target && time.Now().Before(deadline) {
			runtime.Gosched()
		}
	} else {
		p.jitter(lr)
	}
	// the caller's slice must still hold the frame: a buffer recycled during the call shows here
	if !bytes.Equal(entry, pkt) {
		same = false
	}
	fail := p.writeFail[id]
	if fail {
		atomic.AddInt64(&p.injected, 1)
	}
	p.ev(map[string]interface{}{"ev": "WriteEnd", "id": id, "ok": !fail, "same": same})
	if fail {
		return &vfPipeErr{"write", id}
	}
	return nil
}

func (w *vfRW) ReadPacketData() ([]byte, *gopacket.CaptureInfo, error) {
	w.reads++
	if w.reads <= w.p.cfg.RcvErrs {
		data := make([]byte, 8)
		binary.BigEndian.PutUint32(data, uint32(w.reads))
		return data, &gopacket.CaptureInfo{}, nil
	}
	<-w.p.stop // an idle socket; closed (ps.Close()) when the run is cancelled
	return nil, nil, errors.New("read: use of closed file")
}

type vfProc struct{ p *vfPipe }

func (pr *vfProc) ProcessPacketData(data []byte, _ *gopacket.CaptureInfo) error {
	j := int(binary.BigEndian.Uint32(data))
	atomic.AddInt64(&pr.p.injected, 1)
	atomic.AddInt64(&pr.p.rcvSeen, 1)
	pr.p.ev(map[string]interface{}{"ev": "RcvFail", "id": j})
	return &vfPipeErr{"rcv", j}
}

func vfRunPipe(cfg vfPipeCfg, seed int64) []map[string]interface{} {
	rnd := rand.New(rand.NewSource(seed))
	p := &vfPipe{cfg: cfg, sink: &vfSink{}, rnd: rnd, reqErr: map[int]bool{}, fillFail: map[int]bool{}, writeFail: map[int]bool{},
		stop: make(chan struct{})}
	for i := 1; i <= cfg.N; i++ {
		switch {
		case rnd.Float64() < cfg.ReqErr:
			p.reqErr[i] = true
		case rnd.Float64() < cfg.FillErr:
			p.fillFail[i] = true
		case rnd.Float64() < cfg.WriteErr:
			p.writeFail[i] = true
		}
	}
	if cfg.Procs > 0 {
		defer runtime.GOMAXPROCS(runtime.GOMAXPROCS(cfg.Procs))
	}
	n := cfg.N
	if cfg.GenFails {
		n = 1
	}
	p.sink.log(map[string]interface{}{"ev": "Reset", "n": n, "w": cfg.W, "limited": cfg.Limited, "exact": true})
	ctx, cancel := context.WithCancel(context.Background())
	p.cancel = cancel
	defer cancel()

	rw := &vfRW{p: p}
	var prw packet.ReadWriter = rw
	if cfg.Limited {
		prw = packet.NewRateLimitReadWriter(rw, &vfLimiter{p})
	}
	src := NewPacketSource(p, NewPacketMultiGenerator(p, cfg.W))
	engine := NewPacketEngine(src, packet.NewSender(prw), packet.NewReceiver(prw, &vfProc{p}))
	done, errc := engine.Start(ctx, &Range{})
	p.done.Store(done)

	doneSeen := make(chan struct{})
	go func() {
		<-done
		p.ev(map[string]interface{}{"ev": "DoneSeen"})
		close(doneSeen)
	}()
	errClosed := make(chan struct{})
	go func() {
		for err := range errc {
			var pe *vfPipeErr
			kind, id := "foreign", 0
			if errors.As(err, &pe) {
				kind, id = pe.kind, pe.id
			}
			p.ev(map[string]interface{}{"ev": "ErrSeen", "kind": kind, "id": id, "text": err.Error()})
			atomic.AddInt64(&p.seenErrs, 1)
			if cfg.SlowErrUS > 0 {
				time.Sleep(time.Duration(cfg.SlowErrUS) * time.Microsecond)
			}
		}
		p.ev(map[string]interface{}{"ev": "ErrClosedSeen"})
		close(errClosed)
	}()

	hang := func(what string) []map[string]interface{} {
		p.sink.log(map[string]interface{}{"ev": "Hang", "what": what})
		cancel()
		return p.sink.seal()
	}
	if cfg.CancelAt == 0 {
		select {
		case <-doneSeen:
		case <-time.After(30 * time.Second):
			return hang("done not closed 30 s after the last request")
		}
		// every failure that occurred must come out of the error stream; wait for the count, bounded
		deadline := time.Now().Add(15 * time.Second)
		for atomic.LoadInt64(&p.seenErrs) < atomic.LoadInt64(&p.injected) && time.Now().Before(deadline) {
			time.Sleep(200 * time.Microsecond)
		}
		p.sink.mu.Lock()
		if !p.cancelled {
			p.sink.logLocked(map[string]interface{}{"ev": "Quiesced"})
			p.cancelled = true
			p.sink.logLocked(map[string]interface{}{"ev": "Cancel"})
			cancel()
			close(p.stop)
		}
		p.sink.mu.Unlock()
	} else {
		// cancel point replay: wait until the k-th event fired the cancel, or the run ended before reaching it
		select {
		case <-p.stop:
		case <-doneSeen:
			deadline := time.Now().Add(15 * time.Second)
			stopped := func() bool {
				select {
				case <-p.stop:
					return true
				default:
					return false
				}
			}
			// (if the cancel point fired meanwhile, errors may legitimately stay undelivered: do not wait for them)
			for atomic.LoadInt64(&p.seenErrs) < atomic.LoadInt64(&p.injected) && time.Now().Before(deadline) && !stopped() {
				time.Sleep(200 * time.Microsecond)
			}
			p.sink.mu.Lock()
			if !p.cancelled {
				p.cancelled = true
				p.sink.logLocked(map[string]interface{}{"ev": "Quiesced"})
				p.sink.logLocked(map[string]interface{}{"ev": "Cancel"})
				cancel()
				close(p.stop)
			}
			p.sink.mu.Unlock()
		case <-time.After(30 * time.Second):
			return hang("neither cancel point nor done reached in 30 s")
		}
	}
	// after cancellation the error stream must end promptly (bounded: 10 s; typical < 1 ms)
	select {
	case <-errClosed:
	case <-time.After(10 * time.Second):
		return hang("error stream not closed 10 s after cancel")
	}
	// done may legitimately stay open after a cancel (sender parked on its unconditional error send): not awaited
	select {
	case <-doneSeen:
	case <-time.After(20 * time.Millisecond):
	}
	return p.sink.seal()
}

func TestVfPipeline(t *testing.T) {
	out := vfOpenOut(t, "VF_OUT")
	defer out.close()
	seed, _ := strconv.ParseInt(os.Getenv("VERIF_SEED"), 10, 64)
	nfree, _ := strconv.Atoi(os.Getenv("VF_FREE_RUNS"))
	ncancel, _ := strconv.Atoi(os.Getenv("VF_CANCEL_RUNS"))
	big, _ := strconv.Atoi(os.Getenv("VF_BIG_RUNS"))
	rnd := rand.New(rand.NewSource(seed*104729 + 3))
	runs := 0
	ws := []int{1, 2, 3, 8, 16, 64}
	procs := []int{1, 2, 4, 16}
	pick := func(n int) vfPipeCfg {
		c := vfPipeCfg{N: n, W: ws[rnd.Intn(len(ws))], Procs: procs[rnd.Intn(len(procs))], ReqCap: []int{0, 0, 100}[rnd.Intn(3)]}
		switch rnd.Intn(4) {
		case 0: // clean
		case 1:
			c.ReqErr, c.FillErr, c.WriteErr = 0.1, 0.1, 0.1
		case 2:
			c.ReqErr, c.FillErr, c.WriteErr = 0.3, 0.2, 0.3
		default:
			c.WriteErr = 0.6
		}
		c.Limited = rnd.Intn(3) == 0
		c.RcvErrs = []int{0, 0, 3, 150}[rnd.Intn(4)]
		c.Jitter = []int{0, 50, 300}[rnd.Intn(3)]
		c.SlowErrUS = []int{0, 0, 30, 200}[rnd.Intn(4)]
		c.HoldWrites = []int{0, 0, 1, 3}[rnd.Intn(4)]
		return c
	}
	for k := 0; k < nfree; k++ {
		n := 1 + rnd.Intn(260)
		c := pick(n)
		if k%40 == 39 {
			c.GenFails = true
		}
		out.write(vfRunPipe(c, seed+int64(runs)))
		runs++
	}
	// a burst of more receive-side failures than the receiver's error channel holds while the sender is inside one write
	for k := 0; k < 3; k++ {
		c := pick(20 + rnd.Intn(100))
		c.RcvErrs, c.RcvGate, c.Jitter, c.HoldWrites = []int{150, 260, 420}[k], true, 0, 0
		c.ReqErr, c.FillErr, c.WriteErr = 0, 0, 0
		out.write(vfRunPipe(c, seed+int64(runs)))
		runs++
	}
	// more failures than every buffer (100-slot error channels, N*100 merged): big runs, slow error consumer
	for k := 0; k < big; k++ {
		c := pick(1500 + rnd.Intn(2000))
		c.Jitter = 0
		c.HoldWrites = 0
		c.ReqErr, c.FillErr, c.WriteErr = 0.2, 0.1, 0.2
		c.SlowErrUS = []int{0, 20}[rnd.Intn(2)]
		out.write(vfRunPipe(c, seed+int64(runs)))
		runs++
	}
	// cancel-point replay: cancel issued by the wrapper that logs the k-th seam event, for every k of a small run
	for k := 0; k < ncancel; k++ {
		n := []int{3, 6, 8}[k%3]
		c := pick(n)
		c.W = []int{2, 1, 3}[k%3]
		probe := c
		probe.CancelAt = 0
		ev := vfRunPipe(probe, seed+int64(runs))
		out.write(ev)
		runs++
		for at := 1; at <= len(ev)+2; at++ {
			c.CancelAt = at
			out.write(vfRunPipe(c, seed+int64(runs)))
			runs++
		}
	}
	// sampled cancel points in larger runs (full buffers)
	for k := 0; k < ncancel; k++ {
		c := pick(150 + rnd.Intn(400))
		c.ReqErr, c.FillErr, c.WriteErr = 0.3, 0.1, 0.3
		c.SlowErrUS = 100
		c.CancelAt = 1 + rnd.Intn(c.N*4)
		out.write(vfRunPipe(c, seed+int64(runs)))
		runs++
	}
	fmt.Printf("VF_RUNS=%d VF_EVENTS=%d\n", runs, out.n)
}
