"""C01 — coverage: every specified target is probed exactly once per pass.
Spec: Targets.tla (PassExact; TLC exhaustive over the abstract universe), IPv4.tla + TargetsCheck.tla (Denote on concrete CIDR arithmetic),
DenoteGen / TargetsGen (scenarios), TargetsTrace (request streams and frames of the real stack), RangeIter (C04) underneath."""
import json
import os
import vf
from checks import targets_common as tc
from checks import wire_tier as wt

LEVEL = "model_checking"
LEVEL_TEXT = ("TLC checks PassExact on Targets for every target specification of the abstract universe and every iteration order. TLC-generated concrete "
              "specifications (6 base addresses aligned or not x prefix lengths x 9 lists of port ranges incl. adjacent / overlapping / boundary ports x 7 "
              "exclusion lists) and every abstract subnet/hosts/file specification are run through the real generator stack as the commands wire it "
              "(tcp/udp/icmp/arp scan methods with the real fillers, socks engine generator); TLC decides histogram = Denote(target) (bag equality, "
              "multiplicity of overlapping ranges included) and validates the request streams and the frames against Targets.")
NOTE = ("Trusted: TLC, the IPv4 octet arithmetic module, fixed-offset decoding of the probe frames in the harness (frames themselves are checked by C05). "
        "Chunking (>200 ranges), stdin targets and the per-command RunE wiring need the socket-level tier and are listed in DESIGN.md as not yet covered in-process.")
TECHNIQUE = "TLA+ model checking (TLC) + spec-generated target specifications replayed through the real generators; TLC compares with Denote"
DESIGN_REF = "DESIGN.md section 5, C01"


def run(ctx):
    if ctx.replay:
        return vf.replay_trace(ctx, ctx.replay)
    quick = ctx.tier == "quick"
    ctx.cov["rule"] = ("concrete: 6 bases x prefix lengths (quick /24,/26,/27,/29../32; thorough /22../32) x 9 range lists x 7 exclusion lists, all from TLC; "
                       "abstract: every subnet / hosts / file specification over 2 addresses x 2 ports (sampled in quick); distinct = specifications")
    ctx.tlc_mc("Targets", "MC_Targets", workers=16, timeout=1200)
    # concrete denotation
    sc = tc.denote_runs(ctx, full=not quick)
    if quick:
        big = [x for x in sc if any(r["hi"] - r["lo"] > 1000 or r["lo"] == 0 for r in x["ranges"])]
        sc = big + [x for x in sc if x not in big][::2]
    trace = tc.run_parallel(ctx, "^TestVfDenote$", sc, "c01d", procs=12)
    n1 = tc.validate_denote(ctx, trace, "C01", "c01d")
    # binding self-test: a histogram with one probe missing must be rejected
    runs = vf.read_ndjson(trace)
    probe = next((r for r in runs if len(r["hist"]) > 3), None)
    if probe is not None:
        bad = json.loads(json.dumps(probe))
        bad["hist"] = bad["hist"][1:]
        p = os.path.join(ctx.scratch, "c01-selftest.ndjson")
        vf.write_ndjson(p, [bad])
        ok, _ = ctx.tlc_trace("TargetsCheck", p)
        if ok:
            raise vf.Inconclusive("binding self-test failed: TargetsCheck accepted a histogram with a probe removed")
        ctx.step("selftest", corrupted="one histogram entry removed", rejected=True)
    # abstract universe: iteration order, per-port passes, file modes, wiring of every packet command
    sa, total = tc.abstract_scenarios(ctx, 2, 2, 2, {"subnet", "hosts", "pairs", "filexports", "filehosts"}, 3000 if quick else 40000)
    t2 = tc.run_parallel(ctx, "^TestVfTargets$", sa, "c01a", procs=8 if quick else 14)
    n2, _ = vf.validate_runs(ctx, "TargetsTrace", t2, cfg="TargetsTrace_A2", keyfn=tc.target_key, label="abstract target specifications", timeout=3000)
    ctx.step("scenarios", concrete=len(sc), abstract_enumerated=total, abstract_run=len(sa))
    for r0 in runs[:2]:
        ctx.sample({k: (v if k != "hist" else v[:5]) for k, v in r0.items()})
    for r0 in vf.split_runs(vf.read_ndjson(t2))[:2]:
        ctx.sample(r0)
    # socket-level tier: the real binary, every command's RunE wiring, chunking (>200 ranges), file and stdin targets, loopback application scans
    n3, rej = wt.run_wire(ctx, select=lambda s: s["expect"]["kind"] in ("packet", "packetbusy", "app", "apphttp"), label="c01w", focus="coverage")
    wt.report(ctx, "C01", rej)
