//go:build verif

package command

// C08 / C12 / C15 / C16 harness (application path): the real scan.NewScanEngine (GenericEngine,
// worker), scan.NewResultChan, scan.NewRateLimitScanner, startScanEngine and log.NewLogger between a
// recording RequestGenerator, Limiter, Scanner, Logger.Error and io.Writer. It drives and records;
// the verdict is TLC's (AppScanObsTrace.tla).

import (
	"bytes"
	"context"
	"encoding/json"
	"errors"
	"fmt"
	"math/rand"
	"net"
	"os"
	"runtime"
	"strconv"
	"sync/atomic"
	"testing"
	"time"

	"github.com/v-byte-cpu/sx/command/log"
	"github.com/v-byte-cpu/sx/pkg/scan"
)

type vfAppCfg struct {
	N         int
	W         int
	Hit       float64
	Fail      float64
	ReqErr    float64
	LatencyUS int // max probe latency
	Limited   bool
	ResCap    int           // result channel capacity (1000 in the commands)
	ExitDelay time.Duration // 300 ms default
	WriterUS  int           // writer delay per line
	CancelAt  int           // external cancel (Ctrl-C) when the k-th seam event is logged; 0: never
	Procs     int
	GenFails  bool
}

type vfAppErr struct{ id int }

func (e *vfAppErr) Error() string { return fmt.Sprintf("vf-app-%d", e.id) }

type vfResult struct{ id int }

func (r *vfResult) String() string               { return fmt.Sprintf("vf %d", r.id) }
func (r *vfResult) ID() string                   { return strconv.Itoa(r.id) }
func (r *vfResult) MarshalJSON() ([]byte, error) { return []byte(fmt.Sprintf(`{"vfid":%d}`, r.id)), nil }

type vfApp struct {
	cfg       vfAppCfg
	sink      *vfSink
	kinds     []string // 1-based
	done      atomic.Value
	cancelCmd context.CancelFunc
	nev       int
	cancelled bool
	cancelCh  chan struct{}
}

func (a *vfApp) ev(m map[string]interface{}) {
	a.sink.mu.Lock()
	a.sink.logLocked(m)
	a.nev++
	if a.cfg.CancelAt > 0 && a.nev == a.cfg.CancelAt && !a.cancelled && !a.sink.sealed {
		a.cancelled = true
		a.sink.logLocked(map[string]interface{}{"ev": "Cancel"})
		a.cancelCmd()
		close(a.cancelCh)
	}
	a.sink.mu.Unlock()
}

func vfAppIP(id int) net.IP { return net.IPv4(10, byte(id>>16), byte(id>>8), byte(id)).To4() }
func vfAppID(ip net.IP) int {
	ip = ip.To4()
	return int(ip[1])<<16 | int(ip[2])<<8 | int(ip[3])
}

func (a *vfApp) GenerateRequests(ctx context.Context, _ *scan.Range) (<-chan *scan.Request, error) {
	if a.cfg.GenFails {
		a.ev(map[string]interface{}{"ev": "Gen", "id": 1, "kind": "reqerr"})
		return nil, &vfAppErr{1}
	}
	out := make(chan *scan.Request, []int{0, 100}[a.cfg.N%2])
	go func() {
		defer close(out)
		for i := 1; i <= a.cfg.N; i++ {
			req := &scan.Request{DstIP: vfAppIP(i), DstPort: uint16(i)}
			if a.kinds[i] == "reqerr" {
				req = &scan.Request{Err: &vfAppErr{i}}
			}
			if ctx.Err() != nil {
				return
			}
			a.ev(map[string]interface{}{"ev": "Gen", "id": i, "kind": a.kinds[i]})
			select {
			case <-ctx.Done():
				return
			case out <- req:
			}
		}
	}()
	return out, nil
}

type vfAppLimiter struct{ a *vfApp }

func (l *vfAppLimiter) Take() time.Time {
	l.a.ev(map[string]interface{}{"ev": "Take"})
	return time.Now()
}

func (a *vfApp) Scan(ctx context.Context, r *scan.Request) (scan.Result, error) {
	id := vfAppID(r.DstIP)
	doneClosed := false
	if d, ok := a.done.Load().(<-chan interface{}); ok && d != nil {
		select {
		case <-d:
			doneClosed = true
		default:
		}
	}
	a.ev(map[string]interface{}{"ev": "ScanBegin", "id": id, "doneClosed": doneClosed})
	if a.cfg.LatencyUS > 0 {
		lr := rand.New(rand.NewSource(int64(id)*7919 + 1))
		t := time.NewTimer(time.Duration(lr.Intn(a.cfg.LatencyUS)) * time.Microsecond)
		select {
		case <-t.C:
		case <-ctx.Done(): // probes end promptly when the scan is cancelled
			t.Stop()
		}
	}
	k := a.kinds[id]
	a.ev(map[string]interface{}{"ev": "ScanEnd", "id": id, "outcome": k})
	switch k {
	case "hit":
		return &vfResult{id}, nil
	case "fail":
		return nil, &vfAppErr{id}
	}
	return nil, nil
}

// engine wrapper: only observes the done channel
type vfAppEngine struct {
	*scan.GenericEngine
	a *vfApp
}

func (e *vfAppEngine) Start(ctx context.Context, r *scan.Range) (<-chan interface{}, <-chan error) {
	done, errc := e.GenericEngine.Start(ctx, r)
	e.a.done.Store(done)
	go func() {
		<-done
		e.a.ev(map[string]interface{}{"ev": "DoneSeen"})
	}()
	return done, errc
}

// logger wrapper: Error is recorded; LogResults is the real logger's
type vfAppLogger struct {
	log.Logger
	a *vfApp
}

func (l *vfAppLogger) Error(err error) {
	var ae *vfAppErr
	id := 0
	if errors.As(err, &ae) {
		id = ae.id
	}
	l.a.ev(map[string]interface{}{"ev": "ErrLogged", "id": id, "text": err.Error()})
}

// writer: one Write call must be exactly one complete JSON line
type vfAppWriter struct {
	a   *vfApp
	all bytes.Buffer
}

func (w *vfAppWriter) Write(p []byte) (int, error) {
	w.all.Write(p)
	var rec struct {
		ID *int `json:"vfid"`
	}
	if len(p) == 0 || p[len(p)-1] != '\n' || bytes.Count(p, []byte{'\n'}) != 1 || json.Unmarshal(p[:len(p)-1], &rec) != nil || rec.ID == nil {
		w.a.ev(map[string]interface{}{"ev": "Garbled", "text": string(p)})
		return len(p), nil
	}
	if w.a.cfg.WriterUS > 0 {
		time.Sleep(time.Duration(w.a.cfg.WriterUS) * time.Microsecond)
	}
	w.a.ev(map[string]interface{}{"ev": "Line", "id": *rec.ID})
	return len(p), nil
}

func vfRunApp(cfg vfAppCfg, seed int64) []map[string]interface{} {
	rnd := rand.New(rand.NewSource(seed))
	a := &vfApp{cfg: cfg, sink: &vfSink{}, kinds: make([]string, cfg.N+2), cancelCh: make(chan struct{})}
	for i := 1; i <= cfg.N; i++ {
		x := rnd.Float64()
		switch {
		case x < cfg.ReqErr:
			a.kinds[i] = "reqerr"
		case x < cfg.ReqErr+cfg.Fail:
			a.kinds[i] = "fail"
		case x < cfg.ReqErr+cfg.Fail+cfg.Hit:
			a.kinds[i] = "hit"
		default:
			a.kinds[i] = "miss"
		}
	}
	if vfForceKinds != nil {
		for i := 1; i <= cfg.N; i++ {
			if k := vfForceKinds(i); k != "" {
				a.kinds[i] = k
			}
		}
	}
	if cfg.Procs > 0 {
		defer runtime.GOMAXPROCS(runtime.GOMAXPROCS(cfg.Procs))
	}
	n := cfg.N
	if cfg.GenFails {
		n = 1
		a.kinds[1] = "reqerr"
	}
	// "exact": the proviso of C08 holds -- exit delay at its default or larger, a writer that keeps up, no Ctrl-C
	exact := cfg.ExitDelay >= 300*time.Millisecond && cfg.WriterUS <= 50 && cfg.CancelAt == 0
	a.sink.log(map[string]interface{}{"ev": "Reset", "n": n, "w": cfg.W, "exact": exact, "limited": cfg.Limited})

	cmdCtx, cancelCmd := context.WithCancel(context.Background())
	a.cancelCmd = cancelCmd
	defer cancelCmd()
	var scanner scan.Scanner = a
	if cfg.Limited {
		scanner = scan.NewRateLimitScanner(a, &vfAppLimiter{a})
	}
	results := scan.NewResultChan(cmdCtx, cfg.ResCap)
	engine := &vfAppEngine{scan.NewScanEngine(a, scanner, results, scan.WithScanWorkerCount(cfg.W)), a}
	w := &vfAppWriter{a: a}
	inner, err := log.NewLogger(w, "vf", log.JSON())
	if err != nil {
		panic(err)
	}
	lg := &vfAppLogger{inner, a}
	ret := make(chan struct{})
	go func() {
		_ = startScanEngine(cmdCtx, engine, newEngineConfig(withLogger(lg), withScanRange(&scan.Range{}), withExitDelay(cfg.ExitDelay)))
		a.ev(map[string]interface{}{"ev": "Returned"})
		close(ret)
	}()
	bound := cfg.ExitDelay + 60*time.Second
	select {
	case <-ret:
	case <-a.cancelCh:
		// cancelled from outside: the scan call must return within bounded time (10 s; typical < 50 ms)
		select {
		case <-ret:
		case <-time.After(10 * time.Second):
			a.sink.log(map[string]interface{}{"ev": "Hang", "what": "startScanEngine did not return 10 s after cancel"})
			return a.sink.seal()
		}
	case <-time.After(bound):
		a.sink.log(map[string]interface{}{"ev": "Hang", "what": "startScanEngine did not return"})
		cancelCmd()
		return a.sink.seal()
	}
	// everything written is complete records
	if b := w.all.Bytes(); len(b) > 0 && b[len(b)-1] != '\n' {
		a.sink.log(map[string]interface{}{"ev": "Garbled", "text": "output does not end with a newline"})
	}
	// a probe or line after the return would be logged into a sealed sink and counted
	time.Sleep(200 * time.Microsecond)
	evs := a.sink.seal()
	return evs
}

func TestVfAppScan(t *testing.T) {
	out := vfOpenOut(t, "VF_OUT")
	defer out.close()
	seed, _ := strconv.ParseInt(os.Getenv("VERIF_SEED"), 10, 64)
	nfree, _ := strconv.Atoi(os.Getenv("VF_FREE_RUNS"))
	nbig, _ := strconv.Atoi(os.Getenv("VF_BIG_RUNS"))
	ncancel, _ := strconv.Atoi(os.Getenv("VF_CANCEL_RUNS"))
	rnd := rand.New(rand.NewSource(seed*15485863 + 11))
	runs := 0
	ws := []int{1, 2, 3, 7, 100, 1000}
	pick := func(n int) vfAppCfg {
		c := vfAppCfg{N: n, W: ws[rnd.Intn(len(ws))], Procs: []int{1, 2, 4, 16}[rnd.Intn(4)], ResCap: 1000, ExitDelay: 300 * time.Millisecond}
		switch rnd.Intn(4) {
		case 0:
			c.Hit = 1
		case 1:
			c.Hit, c.Fail, c.ReqErr = 0.3, 0.2, 0.1
		case 2:
			c.Hit, c.Fail, c.ReqErr = 0.1, 0.6, 0.2
		default:
			c.Hit = 0.05
		}
		c.LatencyUS = []int{0, 0, 200, 3000}[rnd.Intn(4)]
		c.Limited = rnd.Intn(3) == 0
		c.WriterUS = []int{0, 0, 20}[rnd.Intn(3)]
		return c
	}
	for k := 0; k < nfree; k++ {
		c := pick(1 + rnd.Intn(120))
		if k%25 == 24 {
			c.GenFails = true
		}
		if k%5 == 0 { // small result buffers: back-pressure on Put
			c.ResCap = 1 + rnd.Intn(3)
		}
		out.write(vfRunApp(c, seed+int64(runs)))
		runs++
	}
	// more hits than both 1000-slot buffers, more errors than the 100-slot error buffer; the last probes are slow,
	// so the scan outlasts the exit delay and hits arrive right before completion
	for k := 0; k < nbig; k++ {
		c := pick(2200 + rnd.Intn(1500))
		c.Hit, c.Fail, c.ReqErr = 0.75, 0.15, 0.05
		c.W = []int{100, 1000, 7}[k%3]
		c.LatencyUS = []int{0, 400000, 2000}[k%3]
		c.WriterUS = 0
		// up to 2000 results are still queued when completion is signalled: "the exit delay at its default or larger" is
		// taken at 3 s here so that draining them does not depend on the speed of this harness's recording writer
		c.ExitDelay = 3 * time.Second
		out.write(vfRunApp(c, seed+int64(runs)))
		runs++
	}
	// long probes: the scan lasts longer than the exit delay, all hits at the very end
	for k := 0; k < nbig; k++ {
		c := pick(40 + rnd.Intn(60))
		c.Hit, c.Fail, c.ReqErr = 1, 0, 0
		c.W = 100
		c.LatencyUS = 450000
		c.WriterUS = 50
		out.write(vfRunApp(c, seed+int64(runs)))
		runs++
	}
	// as many error requests as workers, then valid targets
	for k := 0; k < nbig; k++ {
		w := []int{1, 3, 7}[k%3]
		c := vfAppCfg{N: w + 20, W: w, ResCap: 1000, ExitDelay: 300 * time.Millisecond, Hit: 0.5, ReqErr: 0}
		out.write(vfRunAppWithKinds(c, seed+int64(runs), func(i int) string {
			if i <= w {
				return "reqerr"
			}
			return ""
		}))
		runs++
	}
	// no exit delay at all, and the failing entries at the end of the list: every failure is still logged before the call returns
	// (the error stream is drained to its end, not only until the cancellation that ends the delay)
	for k := 0; k < 4; k++ {
		w := []int{1, 2, 8, 32}[k]
		n := 40 + 30*k
		c := vfAppCfg{N: n, W: w, ResCap: 1000, ExitDelay: 0, Hit: 0.3, ReqErr: 0, Procs: []int{1, 2, 4, 16}[k]}
		out.write(vfRunAppWithKinds(c, seed+int64(runs), func(i int) string {
			if i > n/3 {
				return []string{"reqerr", "fail"}[i%2]
			}
			return ""
		}))
		runs++
	}
	// cancel-point replay (Ctrl-C): every k of a small run, sampled k in larger ones
	for k := 0; k < ncancel; k++ {
		c := pick([]int{3, 5, 9}[k%3])
		c.W = []int{2, 1, 3}[k%3]
		c.ExitDelay = 50 * time.Millisecond
		c.LatencyUS = []int{0, 300}[k%2]
		probe := c
		ev := vfRunApp(probe, seed+int64(runs))
		out.write(ev)
		runs++
		for at := 1; at <= len(ev)+1; at++ {
			c.CancelAt = at
			out.write(vfRunApp(c, seed+int64(runs)))
			runs++
		}
	}
	for k := 0; k < ncancel*3; k++ {
		c := pick(300 + rnd.Intn(1500))
		c.Hit, c.Fail, c.ReqErr = 0.5, 0.3, 0.1
		c.WriterUS = []int{0, 100}[k%2]
		c.ResCap = []int{1000, 2}[k%2]
		c.CancelAt = 1 + rnd.Intn(c.N*3)
		out.write(vfRunApp(c, seed+int64(runs)))
		runs++
	}
	fmt.Printf("VF_RUNS=%d VF_EVENTS=%d\n", runs, out.n)
}

// vfRunAppWithKinds: like vfRunApp but with some kinds forced
func vfRunAppWithKinds(cfg vfAppCfg, seed int64, force func(i int) string) []map[string]interface{} {
	vfForceKinds = force
	defer func() { vfForceKinds = nil }()
	return vfRunApp(cfg, seed)
}

var vfForceKinds func(i int) string
