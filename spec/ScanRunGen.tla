----------------------------- MODULE ScanRunGen -----------------------------
(* Stimuli for the chunk loop (ScanRun): which frames arrive in which phase of a two-pass scan. A stimulus is a set of at most    *)
(* two (frame kind, slot) pairs; kinds: a reply to a probe of pass 1, a reply to a probe of pass 2, a frame that is not           *)
(* reply-shaped; slots: while pass 1 is sending, early / late in its exit delay, while pass 2 is sending ... The real binary is    *)
(* run on the virtual wire under each stimulus and ScanRunTrace decides what had to be printed - the generator says nothing        *)
(* about expected output.                                                                                                          *)
EXTENDS Integers, FiniteSets, Sequences, TLC, Json, IOUtils, SequencesExt
Kinds == {"reply1", "reply2", "unshaped"}
Slots == {"send1", "listen1early", "listen1late", "listen2early", "listen2late"}
Pairs == Kinds \X Slots
Stim == {s \in SUBSET Pairs : Cardinality(s) <= 2}
AsRec(s) == [frames |-> SetToSeq({[kind |-> p[1], slot |-> p[2]] : p \in s})]
ASSUME PrintT(<<"stimuli", Cardinality(Stim)>>)
ASSUME ndJsonSerialize(IOEnv.VF_OUT, SetToSeq({AsRec(s) : s \in Stim}))
VARIABLE x
Init == x = 0
Next == UNCHANGED x
=============================================================================
