------------------------------ MODULE IfaceTrace ------------------------------
(* C17 binding: host configurations materialised in a private network namespace (veth = Ethernet with a MAC, tun =  *)
(* point-to-point without hardware address; IPv4 / IPv6 addresses; default routes with metrics) and read back the     *)
(* way the kernel reports them; the real getScanRange / getInterface / pkg/ip functions choose; the choice must be     *)
(* one the relation Iface!Outcomes allows for that configuration.                                                      *)
EXTENDS Iface, Json, IOUtils
Trace == ndJsonDeserialize(IOEnv.VERIF_TRACE)
ToCfg(e) == [ifs |-> e.cfg.ifs, routes |-> {<<e.cfg.routes[i][1], e.cfg.routes[i][2]>> : i \in 1..Len(e.cfg.routes)},
             fIface |-> e.cfg.fIface, fSrcIP |-> e.cfg.fSrcIP, fSrcV6 |-> e.cfg.fSrcV6, fSrcMAC |-> e.cfg.fSrcMAC, target |-> e.cfg.target]
Same(o, x) == IF x.err # "none" THEN o.err = x.err
              ELSE o.err = "none" /\ o.iface = x.iface /\ o.src = <<x.src[1], x.src[2]>> /\ o.mac = x.mac /\ o.vpn = x.vpn
EventOK(e) == \E o \in Outcomes(ToCfg(e)) : Same(o, e.out)
VARIABLE l
Init == l = 1
Next == l <= Len(Trace) /\ EventOK(Trace[l]) /\ l' = l + 1
TSpec == Init /\ [][Next]_l
HighWater == TLCSet(1, IF l > TLCGet(1) THEN l ELSE TLCGet(1))
ASSUME TLCSet(1, 0)
TraceAccepted == IF TLCGet(1) = Len(Trace) + 1 THEN PrintT(<<"TRACE ACCEPTED", Len(Trace)>>)
                 ELSE Print(<<"REJECTED at event", TLCGet(1), Trace[TLCGet(1)].id>>, FALSE)
==============================================================================
