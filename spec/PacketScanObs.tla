---------------------------- MODULE PacketScanObs ----------------------------
(* Observable (seam-level) behaviour of the packet pipeline                      *)
(*   RequestGenerator -> N x packetGenerator(filler) -> MergeBufferDataChan ->   *)
(*   sender -> [rate limiter] -> Writer ; errors -> mergeErrChan -> consumer     *)
(* i.e. what a recording RequestGenerator / PacketFiller / Limiter / Writer /    *)
(* error consumer can see. Traces recorded from the real pipeline are validated  *)
(* against this module (PacketScanObsTrace); the goroutine-level model           *)
(* PacketScan refines it (checked by TLC).                                       *)
EXTENDS Integers, FiniteSets, Sequences
CONSTANTS R       \* request ids are 1..R
Id == 1..R
Kinds == {"req", "fill", "write"}        \* failures of the send path, by request id
AllKinds == Kinds \cup {"rcv"}           \* plus processing errors of the receive path, by frame number
VARIABLES total,      \* number of requests of this run
          nw,         \* number of packet-building workers of this run
          gen,        \* requests generated so far (ids 1..gen, in order)
          genErr,     \* ids of requests that carried an error
          fillBusy, fillOk, fillErr,    \* Fill in progress / returned nil / returned an error
          wBusy,      \* id whose frame is being written (0: none) -- one sender goroutine
          wOk, wErr,  \* WritePacketData returned nil / an error
          pending,    \* failures that occurred: <<kind, id>>
          seen,       \* failures delivered on the error stream
          done,       \* the done channel was observed closed
          errClosed,  \* the error stream was observed closed
          cancelled,
          limited,    \* a rate limiter is installed in front of the writer
          charged     \* limiter tokens taken and not yet used by a write (0 or 1)
ovars == <<total, nw, gen, genErr, fillBusy, fillOk, fillErr, wBusy, wOk, wErr, pending, seen, done, errClosed, cancelled, limited, charged>>

OInitRun(n, lim, w) ==
    /\ total = n /\ nw = w /\ gen = 0 /\ genErr = {} /\ fillBusy = {} /\ fillOk = {} /\ fillErr = {}
    /\ wBusy = 0 /\ wOk = {} /\ wErr = {} /\ pending = {} /\ seen = {}
    /\ done = FALSE /\ errClosed = FALSE /\ cancelled = FALSE /\ limited = lim /\ charged = 0
OInit == \E w \in 1..R : OInitRun(R, FALSE, w)

Gen(i, e) == /\ i = gen + 1 /\ i <= total /\ gen' = i
             /\ genErr' = IF e THEN genErr \cup {i} ELSE genErr
             /\ pending' = IF e THEN pending \cup {<<"req", i>>} ELSE pending
             /\ UNCHANGED <<total, nw, fillBusy, fillOk, fillErr, wBusy, wOk, wErr, seen, done, errClosed, cancelled, limited, charged>>
\* a frame is built at most once, only for a generated error-free request, by at most W workers at a time
FillBegin(i) == /\ i <= gen /\ i \notin genErr /\ i \notin (fillBusy \cup fillOk \cup fillErr)
                /\ Cardinality(fillBusy) < nw
                /\ fillBusy' = fillBusy \cup {i}
                /\ UNCHANGED <<total, nw, gen, genErr, fillOk, fillErr, wBusy, wOk, wErr, pending, seen, done, errClosed, cancelled, limited, charged>>
FillEnd(i, ok) == /\ i \in fillBusy /\ fillBusy' = fillBusy \ {i}
                  /\ fillOk' = IF ok THEN fillOk \cup {i} ELSE fillOk
                  /\ fillErr' = IF ok THEN fillErr ELSE fillErr \cup {i}
                  /\ pending' = IF ok THEN pending ELSE pending \cup {<<"fill", i>>}
                  /\ UNCHANGED <<total, nw, gen, genErr, wBusy, wOk, wErr, seen, done, errClosed, cancelled, limited, charged>>
\* the limiter is charged exactly once per frame, before the write
Take == /\ limited /\ charged = 0 /\ wBusy = 0 /\ charged' = 1
        /\ UNCHANGED <<total, nw, gen, genErr, fillBusy, fillOk, fillErr, wBusy, wOk, wErr, pending, seen, done, errClosed, cancelled, limited>>
\* a frame reaches the writer at most once, only after it was built, never after done
WriteBegin(i) == /\ i \in fillOk /\ i \notin (wOk \cup wErr) /\ wBusy = 0 /\ ~done
                 /\ (limited => charged = 1) /\ charged' = 0
                 /\ wBusy' = i
                 /\ UNCHANGED <<total, nw, gen, genErr, fillBusy, fillOk, fillErr, wOk, wErr, pending, seen, done, errClosed, cancelled, limited>>
WriteEnd(i, ok) == /\ wBusy = i /\ i # 0 /\ wBusy' = 0
                   /\ wOk' = IF ok THEN wOk \cup {i} ELSE wOk
                   /\ wErr' = IF ok THEN wErr ELSE wErr \cup {i}
                   /\ pending' = IF ok THEN pending ELSE pending \cup {<<"write", i>>}
                   /\ UNCHANGED <<total, nw, gen, genErr, fillBusy, fillOk, fillErr, seen, done, errClosed, cancelled, limited, charged>>
\* every failure is delivered at most once, and only failures that happened
ErrSeen(k, i) == /\ <<k, i>> \in pending \ seen /\ ~errClosed
                 /\ seen' = seen \cup {<<k, i>>}
                 /\ UNCHANGED <<total, nw, gen, genErr, fillBusy, fillOk, fillErr, wBusy, wOk, wErr, pending, done, errClosed, cancelled, limited, charged>>
\* the receiver runs beside the sender and reports processing errors on the same merged stream
RcvFail(j) == /\ <<"rcv", j>> \notin pending /\ pending' = pending \cup {<<"rcv", j>>}
              /\ UNCHANGED <<total, nw, gen, genErr, fillBusy, fillOk, fillErr, wBusy, wOk, wErr, seen, done, errClosed, cancelled, limited, charged>>
Settled == /\ gen = total
           /\ (1..total) \subseteq (genErr \cup fillErr \cup wOk \cup wErr)
\* completion is signalled only after the last frame has been handed to the wire
DoneSeen == /\ ~done /\ wBusy = 0
            /\ (cancelled \/ Settled)
            /\ done' = TRUE
            /\ UNCHANGED <<total, nw, gen, genErr, fillBusy, fillOk, fillErr, wBusy, wOk, wErr, pending, seen, errClosed, cancelled, limited, charged>>
\* after a cancel the merged error stream ends on its own (its multiplexers stop on ctx.Done), possibly before done
ErrClosedSeen == /\ ~errClosed /\ (cancelled \/ (done /\ seen = pending))
                 /\ errClosed' = TRUE
                 /\ UNCHANGED <<total, nw, gen, genErr, fillBusy, fillOk, fillErr, wBusy, wOk, wErr, pending, seen, done, cancelled, limited, charged>>
\* harness marker: done was seen, no cancel so far, and the error stream has delivered everything
Quiesced == /\ done /\ ~cancelled /\ seen = pending
            /\ UNCHANGED ovars
Cancel == /\ ~cancelled /\ cancelled' = TRUE
          /\ UNCHANGED <<total, nw, gen, genErr, fillBusy, fillOk, fillErr, wBusy, wOk, wErr, pending, seen, done, errClosed, limited, charged>>

ONext == \/ \E i \in Id, e \in BOOLEAN : Gen(i, e) \/ FillEnd(i, e) \/ WriteEnd(i, e)
         \/ \E i \in Id : FillBegin(i) \/ WriteBegin(i)
         \/ \E k \in AllKinds, i \in Id : ErrSeen(k, i)
         \/ \E j \in Id : RcvFail(j)
         \/ DoneSeen \/ ErrClosedSeen \/ Cancel \/ Quiesced \/ Take
OSpec == OInit /\ [][ONext]_ovars

(* C07 on observable state *)
Complete == (done /\ ~cancelled) =>
               /\ wOk = ((1..total) \ genErr) \ (fillErr \cup wErr)            \* exactly the error-free requests were written
               /\ \A i \in 1..total : Cardinality({k \in Kinds : <<k, i>> \in pending}) <= 1
NoInventedErrors == seen \subseteq pending
WrittenWereBuilt == (wOk \cup wErr) \subseteq fillOk /\ (wBusy # 0 => wBusy \in fillOk)
TypeOK == /\ gen \in 0..R /\ wBusy \in 0..R /\ charged \in 0..1
===============================================================================
