INIT Init
NEXT Next
