SPECIFICATION TSpec
CONSTANTS R = 100000
CONSTRAINT HighWater
INVARIANT AtReturn
POSTCONDITION TraceAccepted
CHECK_DEADLOCK FALSE
