---- MODULE MC_PacketScan ----
EXTENDS PacketScan
====
