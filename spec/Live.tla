-------------------------------- MODULE Live --------------------------------
(* pkg/scan/request.go liveRequestGenerator (sx arp --live): consecutive passes of a delegate      *)
(* generator; when a pass is exhausted wait the rescan interval, then start the next one; a        *)
(* delegate that fails to start leaves the generator idle (no crash, no busy loop); ctx ends it.   *)
(* Explicit time: `now` advances by Tick; a timer may fire at any time >= its deadline.            *)
EXTENDS Integers, Sequences, FiniteSets, TLC
CONSTANTS Addr,        \* addresses of one pass
          Interval,    \* rescan interval in ticks
          MaxPass, MaxT,
          FailOn       \* set of pass numbers on which the delegate fails to start
VARIABLES now, pass, remaining, st, passEnd, lastStart, starts, emitted, ctx, closed
vars == <<now, pass, remaining, st, passEnd, lastStart, starts, emitted, ctx, closed>>
\* st: "emit" (forwarding a pass), "wait" (timer armed), "idle" (delegate failed: nothing to read until cancel), "exit"
Init == /\ now = 0 /\ pass = 1 /\ remaining = Addr /\ st = "emit" /\ passEnd = -1 /\ lastStart = 0 /\ starts = <<0>>
        /\ emitted = [p \in 1..MaxPass |-> <<>>] /\ ctx = FALSE /\ closed = FALSE
Tick == /\ now < MaxT /\ now' = now + 1 /\ UNCHANGED <<pass, remaining, st, passEnd, lastStart, starts, emitted, ctx, closed>>
\* the delegate hands out each address of the pass once, in any order
Emit(a) == /\ st = "emit" /\ ~ctx /\ a \in remaining
           /\ remaining' = remaining \ {a} /\ emitted' = [emitted EXCEPT ![pass] = Append(@, a)]
           /\ UNCHANGED <<now, pass, st, passEnd, lastStart, starts, ctx, closed>>
PassEnd == /\ st = "emit" /\ remaining = {} /\ st' = "wait" /\ passEnd' = now
           /\ UNCHANGED <<now, pass, remaining, lastStart, starts, emitted, ctx, closed>>
\* the timer fires: the delegate is asked for the next pass (its error is ignored: a nil channel is read until cancel)
Rescan == /\ st = "wait" /\ ~ctx /\ now >= passEnd + Interval /\ pass < MaxPass
          /\ pass' = pass + 1 /\ lastStart' = now /\ starts' = Append(starts, now)
          /\ IF (pass + 1) \in FailOn THEN st' = "idle" /\ remaining' = {}
             ELSE st' = "emit" /\ remaining' = Addr
          /\ UNCHANGED <<now, passEnd, emitted, ctx, closed>>
Exit == /\ ctx /\ st # "exit" /\ st' = "exit" /\ closed' = TRUE
        /\ UNCHANGED <<now, pass, remaining, passEnd, lastStart, starts, emitted, ctx>>
Cancel == /\ ~ctx /\ ctx' = TRUE /\ UNCHANGED <<now, pass, remaining, st, passEnd, lastStart, starts, emitted, closed>>
Next == Tick \/ PassEnd \/ Rescan \/ Exit \/ Cancel \/ \E a \in Addr : Emit(a)
Spec == Init /\ [][Next]_vars /\ WF_vars(PassEnd \/ Rescan \/ Exit \/ \E a \in Addr : Emit(a)) /\ WF_vars(Tick)
(* C19 *)
Set(q) == {q[i] : i \in 1..Len(q)}
\* every completed pass probed every address exactly once; a pass in progress never repeats one
PassExact == \A p \in 1..MaxPass :
                /\ Len(emitted[p]) = Cardinality(Set(emitted[p]))
                /\ ((p < pass \/ (p = pass /\ st = "wait")) /\ p \notin FailOn => Set(emitted[p]) = Addr)
\* the next pass starts no earlier than the interval after the previous one ended; never two delegate calls within one interval
RescanGap == \A i \in 2..Len(starts) : starts[i] >= starts[i - 1] + Interval
NoOutputAfterFailure == \A p \in 1..MaxPass : p \in FailOn => emitted[p] = <<>>
CancelEnds == ctx ~> closed
\* until cancelled (and while the delegate works) passes keep coming
PassesRepeat == \A p \in 1..MaxPass : (FailOn = {} /\ MaxT >= MaxPass * (Interval + 1)) => <>(pass >= p \/ ctx)
=============================================================================
