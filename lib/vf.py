"""Shared machinery for /verif/bin/check: TLC runner, overlay Go harness runner, trace
validation, evidence and known-findings handling.

Exit codes of a check: 0 = property held on everything explored (KNOWN-FINDING lines allowed),
1 = VIOLATION (a behaviour of the real code that the specification rejects, not listed in
known_findings.json), 2 = INCONCLUSIVE (infrastructure problem; never a verdict).
"""
import glob
import json
import os
import re
import shutil
import subprocess
import sys
import tempfile
import time

VERIF = os.path.dirname(os.path.dirname(os.path.abspath(__file__)))
REPO = os.environ.get("VERIF_REPO", "/repo")
SPEC = os.path.join(VERIF, "spec")
OVERLAY = os.path.join(VERIF, "harness", "overlay")
EVID = os.path.join(VERIF, "evidence")
TLA_CP = "/opt/veriftools/tla/tla2tools.jar:/opt/veriftools/tla/CommunityModules-deps.jar"
MODULE = "github.com/v-byte-cpu/sx"

GOENV = {"GOFLAGS": "-mod=mod", "GOPROXY": "off", "GOSUMDB": "off", "GOTOOLCHAIN": "local"}


class Inconclusive(Exception):
    pass


class TlcResult:
    def __init__(self, out, rc, wall):
        self.out = out
        self.rc = rc
        self.wall = wall
        m = re.findall(r"(\d+) states generated, (\d+) distinct states found", out)
        self.generated = int(m[-1][0]) if m else 0
        self.distinct = int(m[-1][1]) if m else 0
        m = re.search(r"The depth of the complete state graph search is (\d+)", out)
        self.depth = int(m.group(1)) if m else 0
        self.no_error = "No error has been found" in out
        self.violated = re.findall(r"Error: (?:Invariant|Action property|Temporal property|Property) (\S+) (?:is|was) violated", out)
        if "Temporal properties were violated" in out:
            self.violated.append("<temporal>")
        if re.search(r"Error: Deadlock reached", out):
            self.violated.append("<deadlock>")
        self.assume_false = re.findall(r"Assumption line (\d+), col \d+ to line \d+, col \d+ of module (\S+) is false", out)
        self.errors = [l for l in out.splitlines() if l.startswith("Error:")]
        self.finished = ("Model checking completed" in out) or ("Finished in" in out)

    def printed(self):
        """Lines produced by PrintT/Print that look like JSON objects or TLA tuples."""
        return [l for l in self.out.splitlines() if l.startswith("{") or l.startswith("<<")]

    def printed_json(self):
        """objects printed with PrintT(ToJson(x)): TLC prints them as JSON-encoded strings"""
        out = []
        for l in self.out.splitlines():
            if l.startswith('"{') or l.startswith('"['):
                try:
                    out.append(json.loads(json.loads(l)))
                except Exception:
                    pass
        return out

    def coverage_zero(self):
        """Actions reported with 0 distinct states by -coverage (vacuity)."""
        z = []
        for m in re.finditer(r"^<(\w+) line \d+, col \d+ to line \d+, col \d+ of module (\w+)>: (\d+):(\d+)", self.out, re.M):
            if int(m.group(4)) == 0:
                z.append(m.group(2) + "!" + m.group(1))
        return sorted(set(z))


class Ctx:
    def __init__(self, pid, tier, level, design_ref=""):
        self.pid = pid
        self.tier = tier
        self.level = level
        self.seed = int(os.environ.get("VERIF_SEED", "1") or "1")
        self.t0 = time.time()
        self.scratch = tempfile.mkdtemp(prefix="vf-%s-" % pid)
        self.cov = {
            "evaluations": 0, "distinct_nontrivial": 0, "rule": "", "samples": [],
            "states": 0, "transitions": 0, "traces_validated_against_impl": 0,
            "exhaustive": False, "tlc_runs": [], "harness_runs": [], "steps": [],
        }
        self.assumptions = []
        self.violations = []     # (key, text, replay_path)
        self.known_hit = []
        self.notes = []
        self.findings = load_findings()
        self.cpus = os.cpu_count() or 4
        self._distinct = set()

    # ---------- bookkeeping ----------
    def log(self, *a):
        print("[%s %6.1fs]" % (self.pid, time.time() - self.t0), *a, flush=True)

    def sample(self, s, limit=8):
        if len(self.cov["samples"]) < limit:
            self.cov["samples"].append(s)

    def count(self, n_eval, distinct_keys=()):
        self.cov["evaluations"] += n_eval
        for k in distinct_keys:
            self._distinct.add(k)
        self.cov["distinct_nontrivial"] = len(self._distinct)

    def add_distinct(self, n):
        """for counts measured elsewhere (e.g. by TLC): add n distinct synthetic keys"""
        base = len(self._distinct)
        for i in range(n):
            self._distinct.add(("#", base + i))
        self.cov["distinct_nontrivial"] = len(self._distinct)

    def step(self, name, **kw):
        d = {"step": name}
        d.update(kw)
        self.cov["steps"].append(d)

    # ---------- TLC ----------
    def _spec_dir(self):
        d = os.path.join(self.scratch, "spec")
        if not os.path.isdir(d):
            shutil.copytree(SPEC, d)
        return d

    def tlc(self, module, cfg=None, workers=None, timeout=600, env=None, xmx="6g",
            simulate=None, depth=None, coverage=False, deadlock=None, extra=(), quiet=False,
            dfid=False, queue_dfs=False):
        d = self._spec_dir()
        cfg = cfg or module
        meta = tempfile.mkdtemp(prefix="meta-", dir=self.scratch)
        if workers is None:
            workers = min(8, self.cpus)
        jopts = ["-XX:+UseParallelGC", "-Xss512m", "-Xmx" + xmx]
        if queue_dfs:
            jopts.append("-Dtlc2.tool.queue.IStateQueue=StateDeque")
        cmd = ["java"] + jopts + ["-cp", TLA_CP, "tlc2.TLC", "-metadir", meta,
                                  "-workers", str(workers), "-config", cfg + ".cfg"]
        if simulate:
            cmd += ["-simulate", simulate]
        if depth:
            cmd += ["-depth", str(depth)]
        if coverage:
            cmd += ["-coverage", "1"]
        if deadlock is False:
            cmd += ["-deadlock"]
        cmd += list(extra) + [module + ".tla"]
        e = dict(os.environ)
        e.pop("JAVA_TOOL_OPTIONS", None)
        if env:
            e.update({k: str(v) for k, v in env.items()})
        t = time.time()
        try:
            p = subprocess.run(cmd, cwd=d, env=e, stdout=subprocess.PIPE, stderr=subprocess.STDOUT,
                               timeout=timeout, text=True, errors="replace")
            out, rc = p.stdout, p.returncode
        except subprocess.TimeoutExpired as ex:
            out = (ex.stdout or b"")
            if isinstance(out, bytes):
                out = out.decode("utf-8", "replace")
            subprocess.run(["pkill", "-f", meta], check=False)
            raise Inconclusive("TLC timeout after %ss: %s %s\n%s" % (timeout, module, cfg, out[-2000:]))
        finally:
            shutil.rmtree(meta, ignore_errors=True)
        r = TlcResult(out, rc, time.time() - t)
        self.cov["tlc_runs"].append({"module": module, "cfg": cfg, "generated": r.generated,
                                     "distinct": r.distinct, "depth": r.depth, "wall_s": round(r.wall, 1),
                                     "workers": workers})
        self.cov["states"] += r.distinct
        self.cov["transitions"] += r.generated
        if not quiet:
            self.log("tlc %s/%s: %d generated, %d distinct, depth %d, %.1fs rc=%d" %
                     (module, cfg, r.generated, r.distinct, r.depth, r.wall, rc))
        if "java.lang.OutOfMemoryError" in out or "StackOverflowError" in out:
            raise Inconclusive("TLC resource failure in %s: %s" % (module, out[-1500:]))
        if "Parsing or semantic analysis failed" in out or "Semantic errors" in out or "*** Parse Error ***" in out:
            raise Inconclusive("TLC parse error in %s:\n%s" % (module, out[-3000:]))
        return r

    def tlc_mc(self, module, cfg=None, expect_violation=None, **kw):
        """Exhaustive model check of the specification itself. A failure here on the model is
        never a verdict about the code: it is reported as inconclusive (model bug)."""
        r = self.tlc(module, cfg, **kw)
        if expect_violation:
            if expect_violation not in r.violated:
                raise Inconclusive("model regression %s/%s: expected %s to be violated (non-vacuity), got %s\n%s" %
                                   (module, cfg or module, expect_violation, r.violated, r.out[-1500:]))
            return r
        if not r.no_error or r.violated or r.assume_false:
            raise Inconclusive("model check of %s/%s failed on the model itself (model bug, not a verdict): %s %s\n%s" %
                               (module, cfg or module, r.violated, r.assume_false, r.out[-3000:]))
        return r

    def tlc_trace(self, module, trace_path, cfg=None, timeout=900, env=None, xmx="8g"):
        """Trace validation: returns (accepted, info). The trace spec maintains a high-water mark
        in TLCGet(1) and prints `REJECTED at event N <event>` from its postcondition."""
        e = {"VERIF_TRACE": trace_path}
        if env:
            e.update(env)
        r = self.tlc(module, cfg, workers=1, timeout=timeout, env=e, xmx=xmx, queue_dfs=True)
        if r.violated:
            raise Inconclusive("an invariant of %s is violated on a spec behaviour reached by a recorded trace (model inconsistency, not a verdict): %s\n%s" %
                               (module, r.violated, r.out[-3000:]))
        m = re.search(r'"REJECTED at event",\s*(\d+),\s*(.*?)\s*>>\s+FALSE', r.out, re.S)
        if m:
            return False, {"index": int(m.group(1)), "event": re.sub(r"\s+", " ", m.group(2))[:600], "tlc": r}
        if "TRACE ACCEPTED" in r.out and r.no_error:
            m2 = re.search(r'"TRACE ACCEPTED", (\d+)', r.out)
            return True, {"events": int(m2.group(1)) if m2 else 0, "tlc": r}
        raise Inconclusive("trace validation of %s did not reach a verdict:\n%s" % (module, r.out[-3000:]))

    # ---------- Go ----------
    def goenv(self, extra=None):
        e = dict(os.environ)
        e.update(GOENV)
        if extra:
            e.update({k: str(v) for k, v in extra.items()})
        return e

    def overlay_file(self, pkgs=None):
        """overlay json that injects /verif/harness/overlay/<pkg>/*.go into /repo/<pkg>/"""
        repl = {}
        for root, _dirs, files in os.walk(OVERLAY):
            rel = os.path.relpath(root, OVERLAY)
            for f in files:
                if f.endswith(".go"):
                    repl[os.path.join(REPO, rel, f)] = os.path.join(root, f)
        p = os.path.join(self.scratch, "overlay.json")
        with open(p, "w") as fh:
            json.dump({"Replace": repl}, fh)
        return p

    def go_build_test(self, pkg, race=True, timeout=900):
        """compile the test binary of one /repo package with the overlay; returns its path"""
        ov = self.overlay_file()
        out = os.path.join(self.scratch, "t_" + pkg.strip("./").replace("/", "_") + ".test")
        cmd = ["go", "test", "-c", "-vet=off", "-tags", "verif", "-overlay", ov, "-o", out]
        if race:
            cmd.append("-race")
        cmd.append(pkg)
        t = time.time()
        p = subprocess.run(cmd, cwd=REPO, env=self.goenv(), stdout=subprocess.PIPE, stderr=subprocess.STDOUT,
                           text=True, timeout=timeout)
        if p.returncode != 0 or not os.path.exists(out):
            raise Inconclusive("harness build failed for %s:\n%s" % (pkg, p.stdout[-4000:]))
        self.log("built %s test binary (%.1fs)" % (pkg, time.time() - t))
        return out

    def go_run_test(self, binary, run, env=None, timeout=900, unshare=False, cwd=None, args=()):
        cmd = [binary, "-test.run", run, "-test.count=1", "-test.timeout", "%ds" % timeout] + list(args)
        if unshare:
            cmd = ["unshare", "-n"] + cmd
        t = time.time()
        try:
            p = subprocess.run(cmd, cwd=cwd or self.scratch, env=self.goenv(env), stdout=subprocess.PIPE,
                               stderr=subprocess.STDOUT, text=True, errors="replace", timeout=timeout + 30)
        except subprocess.TimeoutExpired as ex:
            raise Inconclusive("harness %s timed out after %ss" % (run, timeout))
        wall = time.time() - t
        self.cov["harness_runs"].append({"test": run, "wall_s": round(wall, 1), "rc": p.returncode})
        self.log("harness %s: rc=%d %.1fs" % (run, p.returncode, wall))
        return p.returncode, p.stdout

    def build_sx(self, timeout=600):
        out = os.path.join(self.scratch, "sx")
        p = subprocess.run(["go", "build", "-o", out, "."], cwd=REPO, env=self.goenv(), stdout=subprocess.PIPE,
                           stderr=subprocess.STDOUT, text=True, timeout=timeout)
        if p.returncode != 0:
            raise Inconclusive("sx build failed:\n" + p.stdout[-3000:])
        return out

    def repo_state(self):
        try:
            h = subprocess.run(["git", "-C", REPO, "rev-parse", "HEAD"], stdout=subprocess.PIPE, text=True).stdout.strip()
            d = subprocess.run(["git", "-C", REPO, "status", "--porcelain"], stdout=subprocess.PIPE, text=True).stdout.strip()
            return {"head": h, "dirty": bool(d)}
        except Exception:
            return {}

    # ---------- verdicts ----------
    def violation(self, key, text, replay=None):
        """Record a behaviour of the real code that the specification rejects. key identifies the
        failing input/call site/history class for matching against known_findings.json."""
        for f in self.findings:
            if f.get("status") == "open" and f.get("property") == self.pid and re.search(f.get("key_regex", "^$"), key):
                if f["id"] not in [k[0] for k in self.known_hit]:
                    self.known_hit.append((f["id"], f.get("what", ""), key))
                return
        rp = None
        if replay is not None:
            os.makedirs(os.path.join(EVID, "replay"), exist_ok=True)
            rp = os.path.join(EVID, "replay", "%s%s-%d.json" % (self.pid, os.environ.get("VERIF_EVID_SUFFIX", ""), len(self.violations) + 1))
            with open(rp, "w") as fh:
                json.dump(replay, fh, indent=1, default=str)
        self.violations.append((key, text, rp))

    def finish(self):
        wall = time.time() - self.t0
        ev = {
            "property_id": self.pid, "tier": self.tier, "seed": self.seed, "level": self.level,
            "coverage": self.cov, "assumptions": self.assumptions, "wall_s": round(wall, 1),
            "violations": len(self.violations),
            "known_findings_hit": [k[0] for k in self.known_hit],
            "repo": self.repo_state(), "notes": self.notes,
        }
        os.makedirs(EVID, exist_ok=True)
        with open(os.path.join(EVID, self.pid + os.environ.get("VERIF_EVID_SUFFIX", "") + ".json"), "w") as fh:
            json.dump(ev, fh, indent=1, default=str)
        (None if os.environ.get("VF_KEEP") else shutil.rmtree(self.scratch, ignore_errors=True))
        for fid, what, key in self.known_hit:
            print("KNOWN-FINDING: property=%s %s [%s] (%s)" % (self.pid, what, fid, key))
        if self.violations:
            for key, text, rp in self.violations[:20]:
                print("VIOLATION property=%s replay=%s" % (self.pid, rp or "-"))
                print("  " + key + ": " + text[:1500])
            return 1
        print("OK property=%s tier=%s seed=%d evaluations=%d distinct=%d states=%d traces=%d wall=%.1fs" % (
            self.pid, self.tier, self.seed, self.cov["evaluations"], self.cov["distinct_nontrivial"],
            self.cov["states"], self.cov["traces_validated_against_impl"], wall))
        return 0

    def abort(self, msg):
        """infrastructure failure: write what we have, exit 2"""
        self.notes.append("INCONCLUSIVE: " + msg[:4000])
        self.finish_inconclusive(msg)

    def finish_inconclusive(self, msg):
        print("INCONCLUSIVE property=%s: %s" % (self.pid, msg[:6000]))
        (None if os.environ.get("VF_KEEP") else shutil.rmtree(self.scratch, ignore_errors=True))


def load_findings():
    p = os.path.join(VERIF, "known_findings.json")
    if not os.path.exists(p):
        return []
    with open(p) as fh:
        return json.load(fh).get("findings", [])


def write_ndjson(path, events):
    with open(path, "w") as fh:
        for e in events:
            fh.write(json.dumps(e, separators=(",", ":")) + "\n")


def read_ndjson(path):
    out = []
    with open(path) as fh:
        for l in fh:
            l = l.strip()
            if l:
                out.append(json.loads(l))
    return out


def run_check(pid, level, fn, argv):
    """entry point used by bin/check"""
    tier = "quick"
    replay = None
    a = list(argv)
    while a:
        x = a.pop(0)
        if x in ("quick", "thorough"):
            tier = x
        elif x == "--replay":
            replay = a.pop(0)
    tier = os.environ.get("VERIF_TIER", tier) if tier == "quick" and os.environ.get("VERIF_TIER") in ("quick", "thorough") else tier
    ctx = Ctx(pid, tier, level)
    ctx.replay = replay
    try:
        fn(ctx)
    except Inconclusive as ex:
        ctx.finish_inconclusive(str(ex))
        return 2
    except subprocess.TimeoutExpired as ex:
        ctx.finish_inconclusive("timeout: %s" % ex)
        return 2
    return ctx.finish()


# ---------- batch trace validation with Reset-separated runs ----------
def split_runs(events):
    runs, cur = [], []
    for e in events:
        if e.get("ev") == "Reset" and cur:
            runs.append(cur)
            cur = []
        cur.append(e)
    if cur:
        runs.append(cur)
    return runs


# binding self-test: for each trace specification an output event whose repetition every sound binding must reject (a frame written
# twice, a record printed twice, a packet processed twice, a request generated twice ...). After a batch has been accepted, one accepted
# run is corrupted in that way and validated alone: if TLC accepts it the trace specification does not constrain what it is there for.
SELFTEST_DUP = {"PacketScanObsTrace": ("WriteBegin", "WriteEnd"), "AppScanObsTrace": ("Line",), "ReceiverTrace": ("Proc",), "LoggerTrace": ("Write",),
                "LiveTrace": ("Emit",), "TargetsTrace": ("Item",), "RunnerTrace": ("Line",), "ArpCacheTrace": ("ArpFrame",), "SourceTrace": ("Proc",)}


def binding_selftest(ctx, module, runs, cfg=None, env=None, timeout=900):
    names = SELFTEST_DUP.get(module)
    if os.environ.get("VF_SELFTEST", "1") != "1":
        return
    if not names or getattr(ctx, "_selftested", None) is not None and module in ctx._selftested:
        return
    for r in runs:
        if not (4 <= len(r) <= 4000):
            continue
        idx = [i for i, e in enumerate(r) if e.get("ev") == names[0] and (module != "TargetsTrace" or e.get("k") == "req")
               and (module != "PacketScanObsTrace" or (i + 1 < len(r) and r[i + 1].get("ev") == names[-1] and r[i + 1].get("ok")))]
        if not idx:
            continue
        i = idx[len(idx) // 2]
        span = r[i:i + len(names)]
        bad = r[:i + len(names)] + json.loads(json.dumps(span)) + r[i + len(names):]
        p = os.path.join(ctx.scratch, "selftest-%s.ndjson" % module)
        write_ndjson(p, bad)
        ok, _ = ctx.tlc_trace(module, p, cfg=cfg, env=env, timeout=timeout)
        if ok:
            raise Inconclusive("binding self-test failed: %s accepted a recorded run in which the event %s was repeated" % (module, names[0]))
        ctx.step("selftest-" + module, corrupted="event %s of an accepted run repeated" % names[0], rejected=True)
        if getattr(ctx, "_selftested", None) is None:
            ctx._selftested = set()
        ctx._selftested.add(module)
        return


def selftest_event(ctx, module, event, what, cfg=None, env=None, timeout=600):
    """binding self-test for specifications that judge one event at a time: a corrupted copy of an accepted event must be rejected"""
    if os.environ.get("VF_SELFTEST", "1") != "1":
        return
    p = os.path.join(ctx.scratch, "selftest-%s.ndjson" % module)
    write_ndjson(p, [event])
    ok, _ = ctx.tlc_trace(module, p, cfg=cfg, env=env, timeout=timeout)
    if ok:
        raise Inconclusive("binding self-test failed: %s accepted an event corrupted by: %s" % (module, what))
    ctx.step("selftest-" + module, corrupted=what, rejected=True)


def validate_runs(ctx, module, trace_path, cfg=None, keyfn=None, max_reports=5, env=None, timeout=1800, label=None):
    """Validate a concatenation of runs (each starting with a Reset event) against a trace spec.
    On rejection the offending run is isolated, re-validated alone (so the verdict is about that run
    only), reported as a violation, removed, and validation continues with the remaining runs."""
    events = read_ndjson(trace_path)
    runs = split_runs(events)
    total_runs = len(runs)
    ctx.cov["traces_validated_against_impl"] += total_runs
    ctx.count(len(events))
    reports = 0
    while True:
        if not runs:
            break
        p = os.path.join(ctx.scratch, "batch-%s.ndjson" % module)
        flat = [e for r in runs for e in r]
        write_ndjson(p, flat)
        ok, info = ctx.tlc_trace(module, p, cfg=cfg, env=env, timeout=timeout)
        if ok:
            binding_selftest(ctx, module, runs, cfg=cfg, env=env)
            break
        # locate the run containing the rejected event (1-based index into flat)
        idx = info["index"]
        n = 0
        bad = None
        for k, r in enumerate(runs):
            if n < idx <= n + len(r):
                bad = k
                break
            n += len(r)
        if bad is None:
            # rejected "after the end": the last run did not end cleanly
            bad = len(runs) - 1
            n = len(flat) - len(runs[bad])
        run = runs[bad]
        single = os.path.join(ctx.scratch, "single-%s.ndjson" % module)
        write_ndjson(single, run)
        ok1, info1 = ctx.tlc_trace(module, single, cfg=cfg, env=env, timeout=timeout)
        if ok1:
            # the run alone is fine: the rejection came from the boundary (previous run did not end cleanly)
            if bad > 0:
                run = runs[bad - 1] + run
                bad_lo = bad - 1
            else:
                raise Inconclusive("trace rejected in batch but accepted alone: %s" % info["event"])
            write_ndjson(single, run)
            ok1, info1 = ctx.tlc_trace(module, single, cfg=cfg, env=env, timeout=timeout)
            if ok1:
                raise Inconclusive("boundary rejection not reproducible: %s" % info["event"])
            del runs[bad_lo:bad + 1]
        else:
            del runs[bad]
        at = info1["index"]
        evt = run[at - 1] if at - 1 < len(run) else {"ev": "<end of run: did not end cleanly>"}
        key = (keyfn(run, evt) if keyfn else "%s:%s" % (module, evt.get("ev")))
        ctx.violation(key, "%s rejects event %d of a recorded run: %s (prefix accepted; spec has no matching action)" %
                      (module, at, json.dumps(evt)[:400]),
                      replay={"property": ctx.pid, "trace_spec": module, "cfg": cfg or module, "label": label,
                              "rejected_event_index": at, "rejected_event": evt, "run": run[:20000]})
        reports += 1
        if reports >= max_reports:
            break
    return total_runs, len(events)


def replay_trace(ctx, path):
    """--replay: re-validate the run saved in a replay file against its trace spec"""
    with open(path) as fh:
        rp = json.load(fh)
    p = os.path.join(ctx.scratch, "replay.ndjson")
    write_ndjson(p, rp["run"])
    ok, info = ctx.tlc_trace(rp["trace_spec"], p, cfg=rp.get("cfg"), env=rp.get("env"))
    if ok:
        print("replay: trace ACCEPTED by %s" % rp["trace_spec"])
    else:
        print("replay: trace REJECTED by %s at event %d: %s" % (rp["trace_spec"], info["index"], info["event"]))
        ctx.violation("replay", "replayed trace rejected at event %d" % info["index"])


# ---------- parallel harness processes, crash / race handling ----------
def go_run_many(ctx, binary, run, envs, timeout=900, unshare=False):
    """run the same test binary several times in parallel with different environments;
    returns list of (rc, output)"""
    import concurrent.futures
    with concurrent.futures.ThreadPoolExecutor(max_workers=len(envs)) as ex:
        futs = [ex.submit(ctx.go_run_test, binary, run, e, timeout, unshare) for e in envs]
        return [f.result() for f in futs]


_REPO_FRAME = re.compile(re.escape(REPO) + r"/[^\s:]+\.go:\d+")


def code_under_test_frames(text):
    return [m.group(0) for m in _REPO_FRAME.finditer(text) if "zz_vf_" not in m.group(0)]


def crash_events(ctx, rc, out, label):
    """If the harness process died in a panic / fatal error / was reported by the race detector with a frame
    of the code under test on the stack, return the synthetic run [Reset, Crash] (no spec action matches
    Crash, so TLC rejects it). A crash inside the harness itself is an infrastructure problem."""
    if rc == 0:
        return []
    kind = None
    if "WARNING: DATA RACE" in out:
        kind = "race"
        seg = out[out.index("WARNING: DATA RACE"):][:6000]
    elif re.search(r"^(panic:|fatal error:|unexpected fault address|SIGSEGV)", out, re.M):
        kind = "panic"
        m = re.search(r"^(panic:|fatal error:|unexpected fault address|SIGSEGV)", out, re.M)
        seg = out[m.start():][:8000]
    if kind is None:
        raise Inconclusive("harness %s failed (rc=%d) without a crash of the code under test:\n%s" % (label, rc, out[-4000:]))
    frames = code_under_test_frames(seg)
    if not frames:
        raise Inconclusive("harness %s crashed in the harness itself:\n%s" % (label, seg[:4000]))
    first = seg.splitlines()[0][:300]
    return [{"ev": "Reset", "n": 0, "w": 1, "limited": False, "script": [], "exact": False, "crash": True, "delayUs": 0, "replies": 0},
            {"ev": "Crash", "kind": kind, "text": first, "frames": frames[:8]}]
