"""C04 — randomised iteration is a permutation for every range size up to 2^32.
Spec: RangeIter.tla (the walk, TLC exhaustive on the small rows), CyclicTable.tla (Lucas/Pratt certification of the real table inside
TLC, BigNat limbs), RangeIterTrace.tla (the real iterator's choices and outputs for known draws against the specification's walk)."""
import json
import os
import vf
import pratt

LEVEL = "model_checking"
LEVEL_TEXT = ("TLC checks RangeIter (group pick, randomised generator, seek, Next loop) exhaustively for the rows with P <= 37: every n, every "
              "residue of both draws: Perm, Rejects, Stops. The 32-row table extracted from the working tree is certified inside TLC "
              "(rows increasing, first 3, last 2^32+61, each P prime with G a primitive root by a recursively checked Lucas certificate, "
              "gcd(N, P-1) = 1) - with the textbook cyclic-group lemma this gives Perm for every n <= 2^32+60 and every draw. The real "
              "newRangeIterator is bound to the spec by trace validation: complete sequences for n <= 5000, chosen row / randomised generator / "
              "start / first 60 outputs at every row boundary and at the top of the table, complete walks above 2^16 projected to counts.")
NOTE = ("Trusted: TLC and the BigNat module; the lemma 'g generates (Z/pZ)* => x -> x*g is a single cycle; g^e generates iff gcd(e, p-1) = 1' is assumed, "
        "not proved (no group-theory library for TLAPS here); the factorisation helper is untrusted (only checked). math/rand with a fixed seed is "
        "re-seeded to learn the two draws.")
TECHNIQUE = "TLA+ model checking (TLC) of the walk + in-TLC certification of the table + trace validation of the real iterator"
DESIGN_REF = "DESIGN.md section 5, C04"


def run(ctx):
    if ctx.replay:
        return vf.replay_trace(ctx, ctx.replay)
    quick = ctx.tier == "quick"
    ctx.cov["rule"] = ("model: every n <= 40, every residue pair of the two draws for the first five rows; table: all 32 rows; traces: every n <= 260 x 4 "
                       "seeds, sampled n <= 5000, P_i-2..P_i+1 for all rows x 3 seeds, bad sizes, top of the table, walks above 2^16; "
                       "distinct = (n, seed) pairs")
    ctx.tlc_mc("MC_RangeIter", "MC_RangeIter", workers=8, timeout=900)
    binary = ctx.go_build_test("./pkg/scan")
    trace = os.path.join(ctx.scratch, "c04-trace.ndjson")
    rc, out = ctx.go_run_test(binary, "^TestVfRangeIter$", env={"VF_OUT": trace, "VERIF_SEED": ctx.seed, "VERIF_TIER": ctx.tier}, timeout=2400)
    if rc != 0:
        ev = vf.crash_events(ctx, rc, out, "range iterator")
        ctx.violation("C04:crash", "newRangeIterator crashed: %s" % ev[1]["text"], replay={"output": out[-20000:]})
        return
    events = vf.read_ndjson(trace)
    table = events[0]
    # (E) certify the table that is in the working tree
    rows = [[(x[0] << 16) + x[1] for x in r] for r in table["rows"]]
    certs = pratt.certs_for([r[0] for r in rows])
    table["cofs"] = [[pratt.limbs((r[0] - 1) // q) for q, _ in pratt.factor(r[0] - 1)] for r in rows]
    tpath = os.path.join(ctx.scratch, "c04-table.ndjson")
    vf.write_ndjson(tpath, [table, {"ev": "Certs", "certs": certs}])
    ok, info = ctx.tlc_trace("CyclicTable", tpath, timeout=1800)
    ctx.step("table", rows=len(rows), certificates=len(certs), accepted=ok)
    if not ok:
        ctx.violation("C04:table:%s" % info["event"][:60], "cyclicGroups table rejected by CyclicTable (row or certificate %s): a row is not (prime, primitive root, "
                      "coprime exponent), or rows are not increasing from 3 to 2^32+61" % info["event"], replay={"table": rows, "rejected": info["event"]})
    # (T) the iterator's behaviour: the iterations are independent, so the trace is validated in parallel slices
    import concurrent.futures
    its = events[1:]
    n_it = len(its)
    ctx.cov["traces_validated_against_impl"] += n_it
    ctx.count(n_it, [(e["nstr"], e["seed"]) for e in its])
    k = 8
    slices = [its[i::k] for i in range(k)]

    def validate(i):
        sl = slices[i]
        reports = []
        while sl:
            p = os.path.join(ctx.scratch, "c04-slice-%d.ndjson" % i)
            vf.write_ndjson(p, [table] + sl)
            ok, info = ctx.tlc_trace("RangeIterTrace", p, timeout=3000, xmx="3g")
            if ok or len(reports) >= 3:
                break
            idx = info["index"]          # 1-based index into [table] + sl
            reports.append(sl[idx - 2])
            sl = sl[:idx - 2] + sl[idx - 1:]
        return reports
    with concurrent.futures.ThreadPoolExecutor(max_workers=k) as ex:
        for reports in ex.map(validate, range(k)):
            for bad in reports:
                ctx.violation("C04:iter:n=%s" % bad["nstr"], "RangeIterTrace rejects the iterator's behaviour for n=%s seed=%s (rejected=%s): chosen row / generator / "
                              "start / outputs differ from the specification's walk, or a size is wrongly rejected/accepted" % (bad["nstr"], bad["seed"], bad["rejected"]),
                              replay={"property": "C04", "trace_spec": "RangeIterTrace", "run": [table, bad]})
    pick = next((e for e in its if e.get("complete") and not e.get("rejected") and len(e.get("outs", [])) >= 3), None)
    if pick is not None and os.environ.get("VF_SELFTEST", "1") == "1":
        bad = dict(pick, outs=[pick["outs"][0]] + pick["outs"][:-1])       # first value twice, last value missing
        p = os.path.join(ctx.scratch, "c04-selftest.ndjson")
        vf.write_ndjson(p, [table, bad])
        ok, _ = ctx.tlc_trace("RangeIterTrace", p, timeout=600, xmx="3g")
        if ok:
            raise vf.Inconclusive("binding self-test failed: RangeIterTrace accepted an iteration with a repeated and a missing value")
        ctx.step("selftest-RangeIterTrace", corrupted="an output repeated, another one missing", rejected=True)
    for e in events[1:4] + events[-3:]:
        ctx.sample({k: (v if k != "outs" else v[:6]) for k, v in e.items() if k not in ("r1", "r2")})
    ctx.assumptions += ["cyclic-group lemma (see level note)", "rand.Seed(s) makes the two rand.Int63 draws of newRangeIterator reproducible"]
