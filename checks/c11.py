"""C11 — ARP output is a valid ARP cache; probes use the right destination MAC.
Spec: ArpCache.tla (cache file, last line wins, resolver: own entry / gateway / error; TLC exhaustive), ArpCacheTrace.tla (ARP frames -> real processor ->
real JSON logger -> real FillCache -> Get), Targets.tla MacRight / NoMacIsError via TargetsTrace (resolver + real fillers)."""
import os
import vf
from checks import targets_common as tc
from checks import wire_tier as wt

LEVEL = "model_checking"
LEVEL_TEXT = ("TLC checks ArpCache for every cache file of <= 3 lines over 3 addresses x 3 MACs (duplicates included), every pair of request destinations, gateway "
              "present / absent: LastWins, DstMacRight, NoForeignMac. On the real code: seeded ARP reply frames (duplicates, zero / broadcast / vendor MACs, "
              "padded frames) go through the real ARP processor, result channel and JSON logger; the printed lines are loaded by the real FillCache and every "
              "address is looked up in 4-byte and 16-byte form (and two never-seen addresses), with 16 concurrent readers during a Put under the race "
              "detector; TLC validates against the last-wins map. The resolver + fillers half runs every abstract target specification that uses an ARP "
              "cache (own entry / gateway / no MAC, stale first line per address) through the tcp / udp / icmp scan methods and reads the Ethernet destination "
              "off the built frames (Targets.MacRight).")
NOTE = "Trusted: TLC; fixed-offset reading of the Ethernet destination (frames are checked by C05); data-race freedom is the race detector's verdict."
TECHNIQUE = "TLA+ model checking (TLC) + trace validation of the real ARP-output -> cache -> resolver -> filler composition"
DESIGN_REF = "DESIGN.md section 5, C11"


def run(ctx):
    if ctx.replay:
        return vf.replay_trace(ctx, ctx.replay)
    quick = ctx.tier == "quick"
    ctx.cov["rule"] = ("model: all files <= 3 lines x destinations x gateway; runs: seeded frame sequences (1..40 frames over 1..12 hosts) and every abstract target "
                       "specification with an ARP cache (sampled in quick); distinct = runs + specifications")
    ctx.tlc_mc("ArpCache", "MC_ArpCache", workers=8, timeout=600)
    ctx.tlc_mc("ArpCache", "MC_ArpCache_nogw", workers=8, timeout=600)
    binary = ctx.go_build_test("./command")
    procs = 4
    envs = [{"VF_OUT": os.path.join(ctx.scratch, "c11-%d.ndjson" % k), "VERIF_SEED": ctx.seed * 10 + k, "VF_RUNS": 40 if quick else 600} for k in range(procs)]
    res = vf.go_run_many(ctx, binary, "^TestVfArpCache$", envs, timeout=2400)
    events = []
    for (rc, out), e in zip(res, envs):
        if os.path.exists(e["VF_OUT"]):
            events += vf.read_ndjson(e["VF_OUT"])
        ce = vf.crash_events(ctx, rc, out, "arp cache")
        if ce:
            events += [{"ev": "Reset"}, ce[1]]
    trace = os.path.join(ctx.scratch, "c11-all.ndjson")
    vf.write_ndjson(trace, events)
    n1, _ = vf.validate_runs(ctx, "ArpCacheTrace", trace, keyfn=lambda run, evt: "arpcache:%s" % evt.get("ev"), label="arp output -> cache")
    sa, total = tc.abstract_scenarios(ctx, 2, 2, 2, {"subnet", "hosts", "pairs", "filexports", "filehosts"}, 2500 if quick else 40000, want=lambda s: s["useMac"])
    t2 = tc.run_parallel(ctx, "^TestVfTargets$", sa, "c11a", procs=8)
    n2, _ = vf.validate_runs(ctx, "TargetsTrace", t2, cfg="TargetsTrace_A2", keyfn=tc.target_key, label="resolver and fillers", timeout=3000)
    ctx.count(0, [("run", i) for i in range(n1 + n2)])
    # socket-level tier: the output of `sx arp --json` (a superseded line included) piped into `sx tcp` as its ARP cache, no gateway MAC:
    # destination MACs read off the wire; destinations without an entry are not probed
    # with two default routes in the namespace the fall-back MAC is the cache entry of the gateway of the scan interface
    mine = ("tcp-from-arp-output", "tcp-gateway-of-scan-interface", "tcp-cache-on-stdin-file", "tcp-cache-v6-no-gateway")
    for focus in ("source", "coverage"):
        n3, rej = wt.run_wire(ctx, select=lambda s: s["name"] in mine, label="c11w" + focus[0], focus=focus)
        wt.report(ctx, "C11", rej, names=lambda b: b["name"] in mine)
    for r0 in vf.split_runs(events)[:1]:
        ctx.sample(r0[:12])
    for r0 in vf.split_runs(vf.read_ndjson(t2))[:2]:
        ctx.sample(r0)
