SPECIFICATION SSpec
CONSTANTS R = 3 W = 2 NBuf = 3 CapReq = 1 CapOut = 100 CapMerged = 200 CapErr = 100 AllowCancel = TRUE Bug = "none"
INVARIANTS Emit
CHECK_DEADLOCK FALSE
