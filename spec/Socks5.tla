-------------------------------- MODULE Socks5 --------------------------------
(* pkg/scan/socks5 Scanner.Scan against a scripted server. Time is counted in timers used:     *)
(* at most one dial timeout and three data timeouts (one write, at most two reads).            *)
EXTENDS Integers, Sequences, FiniteSets, TLC, Json
CONSTANTS Byte,        \* reply byte classes, e.g. {5, 0, 9}
          MaxSteps, AllowCancel, Emit
Dial == {"refuse", "blackhole", "reset", "accept"}
Step == [op : {"send"}, b : Byte] \cup [op : {"stall", "close", "reset"}, b : {0}]
VARIABLES dial, script, pos, pc, rx, dialT, dataT, result, cancelled, emitted
vars == <<dial, script, pos, pc, rx, dialT, dataT, result, cancelled, emitted>>
Init == /\ dial \in Dial /\ script \in UNION {[1..n -> Step] : n \in 0..MaxSteps}
        /\ (dial # "accept" => script = <<>>)
        /\ pos = 1 /\ pc = "dial" /\ rx = <<>> /\ dialT = 0 /\ dataT = 0 /\ result = "pending" /\ cancelled = FALSE /\ emitted = FALSE
Finish(r) == result' = r /\ pc' = "done"
\* the server's next step; an exhausted script means the server stalls forever
Srv == IF pos <= Len(script) THEN script[pos] ELSE [op |-> "stall", b |-> 0]
DoDial == /\ pc = "dial"
          /\ CASE dial = "accept" -> pc' = "greet" /\ UNCHANGED <<result, dialT>>
               [] dial = "blackhole" -> dialT' = dialT + 1 /\ Finish("error")
               [] OTHER -> Finish("error") /\ UNCHANGED dialT
          /\ UNCHANGED <<dial, script, pos, rx, dataT, cancelled, emitted>>
\* 05 01 00 goes into the socket buffer; a write only fails or times out against a reset / long-dead peer
Greet == /\ pc = "greet" /\ pc' = "read"
         /\ UNCHANGED <<dial, script, pos, rx, dialT, dataT, result, cancelled, emitted>>
\* one Read call of io.ReadFull(2 bytes): returns what is there, or waits for the next server step
Read == /\ pc = "read"
        /\ LET s == Srv IN
           CASE s.op = "send"  -> /\ rx' = Append(rx, s.b) /\ pos' = pos + 1
                                  /\ IF Len(rx) = 1 THEN pc' = "decide" /\ UNCHANGED result ELSE UNCHANGED <<pc, result>>
                                  /\ UNCHANGED dataT
             [] s.op = "stall" -> /\ dataT' = dataT + 1 /\ Finish("error") /\ UNCHANGED <<rx, pos>>      \* read deadline
             [] OTHER          -> /\ Finish("error") /\ UNCHANGED <<rx, pos, dataT>>                     \* EOF / unexpected EOF / reset
        /\ UNCHANGED <<dial, script, dialT, cancelled, emitted>>
Decide == /\ pc = "decide" /\ Finish(IF rx = <<5, 0>> THEN "hit" ELSE "none")
          /\ UNCHANGED <<dial, script, pos, rx, dialT, dataT, cancelled, emitted>>
\* ctx.Done: the watchdog closes the connection, the blocked call returns an error at once
Cancel == /\ AllowCancel /\ pc \in {"dial", "greet", "read"} /\ ~cancelled /\ cancelled' = TRUE /\ Finish("error")
          /\ UNCHANGED <<dial, script, pos, rx, dialT, dataT, emitted>>
Dump == /\ Emit /\ pc = "done" /\ ~emitted /\ emitted' = TRUE
        /\ PrintT(ToJson([dial |-> dial, script |-> script]))
        /\ UNCHANGED <<dial, script, pos, pc, rx, dialT, dataT, result, cancelled>>
Next == DoDial \/ Greet \/ Read \/ Decide \/ Cancel \/ Dump
Spec == Init /\ [][Next]_vars /\ WF_vars(DoDial \/ Greet \/ Read \/ Decide)
(* C09 *)
Sent(n) == n <= Len(script) /\ \A i \in 1..n : script[i].op = "send"
HitIff0500 == pc = "done" /\ ~cancelled =>
                (result = "hit" <=> (dial = "accept" /\ Sent(2) /\ script[1].b = 5 /\ script[2].b = 0))
TimeBounded == dialT <= 1 /\ dataT <= 1 /\ (dataT = 1 => Len(rx) <= 1)       \* reads: at most two, only the last can time out
Terminates == <>(pc = "done")
===============================================================================
