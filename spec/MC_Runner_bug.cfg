SPECIFICATION Spec
CONSTANTS Delay = 2 MaxT = 6 Probes = 2 AllowSigInt = FALSE CancelOnDone = TRUE
INVARIANTS NoEarlyCancel NoEarlyExit LateReplyTaken

CHECK_DEADLOCK FALSE
