----------------------------- MODULE WireProcess -----------------------------
(* tcp.ScanMethod.ProcessPacketData / icmp.PacketProcessor: gopacket DecodingLayerParser with   *)
(* decoder structs reused across frames; only layers listed in rcvDecoded are fresh.            *)
EXTENDS Integers, Sequences, FiniteSets, TLC
CONSTANTS Vpn,        \* link mode: first layer is ip4 instead of eth
          Fixed,      \* FALSE: validPacket as found (counts layers); TRUE: requires the exact chain
          MaxFrames
L4 == "tcp"           \* the scanned transport ("icmp" is symmetric)
(* a frame is a sequence of layers; "bad" marks a layer whose decoder fails (truncated, bad IHL / data offset) *)
Layer == {"eth", "ip4", "ip4frag", "tcp", "tcpbad", "udp", "ip6", "arp", "other"}
Shapes == { <<"eth", "ip4", "tcp">>, <<"eth", "ip4", "udp">>, <<"eth", "ip4", "ip4", "udp">>, <<"eth", "ip4", "ip4", "tcp">>,
            <<"eth", "ip4frag", "tcp">>, <<"eth", "ip4", "tcpbad">>, <<"eth", "ip6", "tcp">>, <<"eth", "arp">>, <<"eth", "other">>,
            <<"eth", "ip4">> }
Strip(f) == IF Vpn THEN Tail(f) ELSE f
Frames == {Strip(f) : f \in Shapes} \ {<<>>}
VARIABLES k, frame, rcvIP, rcvL4, decoded, records, errors
vars == <<k, frame, rcvIP, rcvL4, decoded, records, errors>>
Init == k = 0 /\ frame = <<>> /\ rcvIP = [f |-> 0, at |-> 0] /\ rcvL4 = [f |-> 0, at |-> 0] /\ decoded = <<>> /\ records = <<>> /\ errors = {}
Decoders == {"eth", "ip4", "ip4frag", L4, "tcpbad"}          \* types the parser was given a decoder for (frag decodes as ip4)
TypeOf(l) == CASE l = "ip4frag" -> "ip4" [] l = "tcpbad" -> "tcp" [] OTHER -> l
\* run the parser over frame fr (number kk): returns [dec, ip, l4, err]
RECURSIVE Parse(_, _, _, _, _, _)
Parse(fr, kk, i, dec, ip, l4) ==
  IF i > Len(fr) \/ fr[i] \notin Decoders THEN [dec |-> dec, ip |-> ip, l4 |-> l4, err |-> FALSE]     \* IgnoreUnsupported: stop quietly
  ELSE IF fr[i] = "tcpbad" THEN [dec |-> dec, ip |-> ip, l4 |-> l4, err |-> TRUE]                       \* decoder error (or recovered panic)
  ELSE LET d2 == Append(dec, TypeOf(fr[i]))
           ip2 == IF TypeOf(fr[i]) = "ip4" THEN [f |-> kk, at |-> i] ELSE ip
           l42 == IF fr[i] = L4 THEN [f |-> kk, at |-> i] ELSE l4 IN
       IF fr[i] = "ip4frag" THEN [dec |-> d2, ip |-> ip2, l4 |-> l42, err |-> FALSE]                    \* next layer type = Fragment: no decoder
       ELSE Parse(fr, kk, i + 1, d2, ip2, l42)
Valid(dec) == IF Fixed THEN dec = (IF Vpn THEN <<"ip4", L4>> ELSE <<"eth", "ip4", L4>>)
              ELSE Len(dec) = 3 \/ (Len(dec) = 2 /\ dec[1] = "ip4")
Receive == /\ k < MaxFrames
           /\ \E fr \in Frames :
                LET r == Parse(fr, k + 1, 1, <<>>, rcvIP, rcvL4) IN
                /\ k' = k + 1 /\ frame' = fr /\ decoded' = r.dec /\ rcvIP' = r.ip /\ rcvL4' = r.l4
                /\ errors' = IF r.err THEN errors \cup {k + 1} ELSE errors
                /\ records' = IF ~r.err /\ Valid(r.dec)
                              THEN Append(records, [frame |-> k + 1, ip |-> r.ip, l4 |-> r.l4])
                              ELSE records
Spec == Init /\ [][Receive]_vars
(* C06 *)
AtMostOnePerFrame == \A i, j \in 1..Len(records) : i # j => records[i].frame # records[j].frame
NoPhantom == \A i \in 1..Len(records) : LET r == records[i] IN
               /\ r.ip.f = r.frame /\ r.l4.f = r.frame          \* every field comes from the frame being processed
               /\ r.l4.at = r.ip.at + 1                          \* ... from an IPv4 header immediately followed by the transport header
ChainPresent == \A i \in 1..Len(records) : k = records[i].frame =>
                  \E j \in 1..(Len(frame) - 1) : frame[j] = "ip4" /\ frame[j + 1] = L4
==============================================================================
