------------------------------ MODULE AppScanObs ------------------------------
(* Seam-level behaviour of an application scan: real GenericEngine + resultChan + startScanEngine *)
(* + logger, observed through a recording RequestGenerator, Scanner, Logger and io.Writer.        *)
EXTENDS Integers, FiniteSets, Sequences
CONSTANTS R, W
Id == 1..R
VARIABLES total, gen, kind, scan, printed, errs, done, returned, cancelled, exact
avars == <<total, gen, kind, scan, printed, errs, done, returned, cancelled, exact>>
AInit == /\ total = R /\ gen = 0 /\ kind = [i \in Id |-> "none"] /\ scan = [i \in Id |-> "none"]
         /\ printed = {} /\ errs = {} /\ done = FALSE /\ returned = FALSE /\ cancelled = FALSE /\ exact = TRUE
AReset(n, ex) == /\ total' = n /\ gen' = 0 /\ kind' = [i \in Id |-> "none"] /\ scan' = [i \in Id |-> "none"]
                 /\ printed' = {} /\ errs' = {} /\ done' = FALSE /\ returned' = FALSE /\ cancelled' = FALSE /\ exact' = ex
Gen(i, k) == /\ i = gen + 1 /\ i <= total /\ gen' = i /\ kind' = [kind EXCEPT ![i] = k]
             /\ UNCHANGED <<total, scan, printed, errs, done, returned, cancelled, exact>>
ScanBegin(i) == /\ i <= gen /\ kind[i] # "reqerr" /\ scan[i] = "none" /\ ~done            \* exactly one worker, exactly once, never after done
                /\ Cardinality({j \in Id : scan[j] = "busy"}) < W
                /\ scan' = [scan EXCEPT ![i] = "busy"]
                /\ UNCHANGED <<total, gen, kind, printed, errs, done, returned, cancelled, exact>>
ScanEnd(i, o) == /\ scan[i] = "busy" /\ o = kind[i] /\ scan' = [scan EXCEPT ![i] = o]
                 /\ UNCHANGED <<total, gen, kind, printed, errs, done, returned, cancelled, exact>>
Line(i) == /\ scan[i] = "hit" /\ i \notin printed /\ ~returned /\ printed' = printed \cup {i}
           /\ UNCHANGED <<total, gen, kind, scan, errs, done, returned, cancelled, exact>>
ErrLogged(i) == /\ i <= gen /\ (kind[i] = "reqerr" \/ scan[i] = "fail") /\ i \notin errs /\ ~returned /\ errs' = errs \cup {i}
                /\ UNCHANGED <<total, gen, kind, scan, printed, done, returned, cancelled, exact>>
Settled == gen = total /\ \A i \in 1..total : kind[i] = "reqerr" \/ scan[i] \in {"hit", "miss", "fail"}
DoneSeen == /\ ~done /\ (\A j \in Id : scan[j] # "busy") /\ (cancelled \/ Settled) /\ done' = TRUE
            /\ UNCHANGED <<total, gen, kind, scan, printed, errs, returned, cancelled, exact>>
\* the scan call returns: after done; if it was not cancelled from outside (and the exit delay was long enough: `exact`)
\* every hit has been printed and every failure logged
Returned == /\ done /\ ~returned /\ returned' = TRUE
            /\ (~cancelled /\ exact) => /\ printed = {i \in 1..total : scan[i] = "hit"}
                                        /\ errs = {i \in 1..total : kind[i] = "reqerr" \/ scan[i] = "fail"}
            /\ UNCHANGED <<total, gen, kind, scan, printed, errs, done, cancelled, exact>>
Cancel == /\ ~cancelled /\ cancelled' = TRUE /\ UNCHANGED <<total, gen, kind, scan, printed, errs, done, returned, exact>>
ANext == \/ \E i \in Id, k \in {"hit", "miss", "fail", "reqerr"} : Gen(i, k) \/ ScanEnd(i, k)
         \/ \E i \in Id : ScanBegin(i) \/ Line(i) \/ ErrLogged(i)
         \/ DoneSeen \/ Returned \/ Cancel
ASpec == AInit /\ [][ANext]_avars
===============================================================================
