---------------------------- MODULE TargetsTrace ----------------------------
(* Trace validation for C01 / C02 / C11 / C13 on the abstract universe: the request stream that the real      *)
(* generator stack produced for a target specification must be one of the output streams Targets allows       *)
(* (any iteration order; stop or continue after a bad line), and the frames that the real scan method built   *)
(* from the same specification must carry the same items (as a bag).                                          *)
(* Logged: Reset{spec}, Item{k, ip, port, cause, mac}, End, Packets{items}. Steps of Targets that emit         *)
(* nothing (Start, port / pass bookkeeping, an excluded address) are silent.                                   *)
EXTENDS Targets, Json, IOUtils, SequencesExt
Trace == ndJsonDeserialize(IOEnv.VERIF_TRACE)
VARIABLES l, ended
tvars == <<vars, l, ended>>
Ev == Trace[l]
Is(e) == l <= Len(Trace) /\ Ev.ev = e /\ l' = l + 1
TInit == /\ mode = "pairs" /\ file = <<>> /\ ports = {} /\ excl = {} /\ cache = {} /\ gw = TRUE /\ useFilter = FALSE /\ useMac = FALSE
         /\ pc = "done" /\ portsLeft = {} /\ cur = 0 /\ pos = 1 /\ ipsLeft = {} /\ prevIP = 0 /\ out = <<>>
         /\ l = 1 /\ ended = TRUE
TReset == /\ Is("Reset") /\ ended
          /\ mode' = Ev.mode /\ file' = Ev.file /\ ports' = ToSet(Ev.ports) /\ excl' = ToSet(Ev.excl) /\ cache' = ToSet(Ev.cache)
          /\ gw' = Ev.gw /\ useFilter' = Ev.useFilter /\ useMac' = Ev.useMac
          /\ pc' = "start" /\ portsLeft' = ToSet(Ev.ports) /\ cur' = 0 /\ pos' = 1 /\ ipsLeft' = {} /\ prevIP' = 0 /\ out' = <<>>
          /\ ended' = FALSE
\* the item the spec appends must be the one observed (the line number is not observable)
Matches(it, e) == it.k = e.k /\ it.ip = e.ip /\ it.port = e.port /\ it.cause = e.cause /\ it.mac = e.mac
TItem == /\ Is("Item") /\ ~ended /\ Next
         /\ Len(out') = Len(out) + 1 /\ Matches(out'[Len(out')], Ev)
         /\ UNCHANGED ended
TSilent == /\ ~ended /\ Next /\ out' = out /\ UNCHANGED <<l, ended>>
TEnd == /\ Is("End") /\ ~ended /\ pc = "done" /\ ended' = TRUE /\ UNCHANGED vars
\* bag of items carried by the frames of the packet path = bag of items of the request stream
Proj(it) == <<it.k, it.ip, it.port, it.cause, it.mac>>
ProjErrNoPort(it) == IF it.k = "err" THEN <<it.k, it.ip, -1, it.cause, it.mac>> ELSE Proj(it)
BagEq(a, b) == /\ Len(a) = Len(b)
               /\ \A x \in ToSet(a) \cup ToSet(b) : Cardinality({i \in 1..Len(a) : a[i] = x}) = Cardinality({i \in 1..Len(b) : b[i] = x})
TPackets == /\ Is("Packets") /\ ended
            /\ LET norm(it) == IF mode = "filexports" THEN ProjErrNoPort(it) ELSE
                               IF it.k = "err" THEN <<it.k, it.ip, 0, it.cause, it.mac>> ELSE Proj(it)
                   a == [i \in 1..Len(out) |-> norm(out[i])]
                   b == [i \in 1..Len(Ev.items) |-> norm(Ev.items[i])] IN
               BagEq(a, b)
            /\ UNCHANGED <<vars, ended>>
TNext == TReset \/ TItem \/ TSilent \/ TEnd \/ TPackets
TSpec == TInit /\ [][TNext]_tvars
HighWater == TLCSet(1, IF l > TLCGet(1) THEN l ELSE TLCGet(1))
ASSUME TLCSet(1, 0)
TraceAccepted == IF TLCGet(1) = Len(Trace) + 1 THEN PrintT(<<"TRACE ACCEPTED", Len(Trace)>>)
                 ELSE Print(<<"REJECTED at event", TLCGet(1), Trace[TLCGet(1)]>>, FALSE)
AtEnd == ended => (PassExact /\ Confined /\ MacRight /\ NoMacIsError /\ BadEntryOneError /\ NeighboursIntact /\ NoBorrowedAddress)
=============================================================================
