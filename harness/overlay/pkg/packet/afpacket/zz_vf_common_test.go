//go:build verif

package afpacket

import (
	"bufio"
	"encoding/json"
	"os"
	"sync"
	"testing"
)

// vfSink is one run's event log. Events are appended under mu at the moment the
// harness observes them, so the order in the log is a real-time order.
type vfSink struct {
	mu     sync.Mutex
	events []map[string]interface{}
	sealed bool
	late   int
}

func (s *vfSink) log(ev map[string]interface{}) {
	s.mu.Lock()
	defer s.mu.Unlock()
	s.logLocked(ev)
}

func (s *vfSink) logLocked(ev map[string]interface{}) {
	if s.sealed {
		s.late++
		return
	}
	s.events = append(s.events, ev)
}

func (s *vfSink) seal() []map[string]interface{} {
	s.mu.Lock()
	defer s.mu.Unlock()
	s.sealed = true
	return s.events
}

type vfOut struct {
	f *os.File
	w *bufio.Writer
	n int
}

func vfOpenOut(t *testing.T, env string) *vfOut {
	p := os.Getenv(env)
	if p == "" {
		t.Skip(env + " not set")
	}
	f, err := os.Create(p)
	if err != nil {
		t.Fatal(err)
	}
	return &vfOut{f: f, w: bufio.NewWriterSize(f, 1<<20)}
}

func (o *vfOut) write(evs []map[string]interface{}) {
	for _, e := range evs {
		b, _ := json.Marshal(e)
		o.w.Write(b)
		o.w.WriteByte('\n')
		o.n++
	}
	// one run at a time: a crash of the code under test must not lose the runs before it
	o.w.Flush()
}

func (o *vfOut) close() {
	o.w.Flush()
	o.f.Close()
}

func vfReadNDJSON(t *testing.T, path string, each func(raw json.RawMessage)) {
	f, err := os.Open(path)
	if err != nil {
		t.Fatal(err)
	}
	defer f.Close()
	sc := bufio.NewScanner(f)
	sc.Buffer(make([]byte, 1<<20), 1<<26)
	for sc.Scan() {
		if len(sc.Bytes()) == 0 {
			continue
		}
		b := make([]byte, len(sc.Bytes()))
		copy(b, sc.Bytes())
		each(b)
	}
}
