SPECIFICATION Spec
CONSTANTS Table <- MCTable MaxN = 40
INVARIANTS Perm Rejects
PROPERTIES Stops
CHECK_DEADLOCK FALSE
