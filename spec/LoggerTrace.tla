----------------------------- MODULE LoggerTrace -----------------------------
(* C14 binding: the real LogResults (plain and behind UniqueLogger) with the real result types.             *)
(* Put{k, id, c}: result k with identity id was handed to the logger; c is the canonical form of the fields  *)
(* it promises to print. Write{c}: one Write call of the output, decoded by an independent strict JSON       *)
(* decoder and canonicalised the same way. The clauses are those of Logger.tla: one line per (forwarded)     *)
(* result, in order, faithful; with de-duplication the first sighting of every identity and nothing else.    *)
EXTENDS Integers, Sequences, FiniteSets, TLC, Json, IOUtils
Trace == ndJsonDeserialize(IOEnv.VERIF_TRACE)
VARIABLES l, unique, seen, expect, cancelled, inClosed, returned
vars == <<l, unique, seen, expect, cancelled, inClosed, returned>>
Ev == Trace[l]
Is(e) == l <= Len(Trace) /\ Ev.ev = e /\ l' = l + 1
Init == l = 1 /\ unique = FALSE /\ seen = {} /\ expect = <<>> /\ cancelled = FALSE /\ inClosed = FALSE /\ returned = TRUE
Reset == /\ Is("Reset") /\ returned /\ unique' = Ev.unique /\ seen' = {} /\ expect' = <<>> /\ cancelled' = FALSE /\ inClosed' = FALSE /\ returned' = FALSE
\* a result enters: it will be printed unless it repeats an identity already seen (unique logger)
Put == /\ Is("Put") /\ ~inClosed
       /\ IF unique /\ Ev.id \in seen THEN UNCHANGED <<seen, expect>>
          ELSE seen' = seen \cup {Ev.id} /\ expect' = Append(expect, Ev.c)
       /\ UNCHANGED <<unique, cancelled, inClosed, returned>>
\* one Write call = one complete line = the next expected result, byte-faithful after decoding
Write == /\ Is("Write") /\ ~returned /\ expect # <<>> /\ Ev.c = Head(expect) /\ expect' = Tail(expect)
         /\ UNCHANGED <<unique, seen, cancelled, inClosed, returned>>
Cancel == /\ Is("Cancel") /\ cancelled' = TRUE /\ UNCHANGED <<unique, seen, expect, inClosed, returned>>
CloseIn == /\ Is("CloseIn") /\ inClosed' = TRUE /\ UNCHANGED <<unique, seen, expect, cancelled, returned>>
\* LogResults returns: after a cancel (possibly leaving results unprinted) or when the input ended and everything was printed
Returned == /\ Is("Returned") /\ ~returned /\ (cancelled \/ (inClosed /\ expect = <<>>)) /\ returned' = TRUE
            /\ UNCHANGED <<unique, seen, expect, cancelled, inClosed>>
Next == Reset \/ Put \/ Write \/ Cancel \/ CloseIn \/ Returned
TSpec == Init /\ [][Next]_vars
HighWater == TLCSet(1, IF l > TLCGet(1) THEN l ELSE TLCGet(1))
ASSUME TLCSet(1, 0)
Brief(e) == IF "c" \in DOMAIN e THEN [ev |-> e.ev, len |-> Len(e.c)] ELSE e
TraceAccepted == IF TLCGet(1) = Len(Trace) + 1 THEN PrintT(<<"TRACE ACCEPTED", Len(Trace)>>)
                 ELSE Print(<<"REJECTED at event", TLCGet(1), Brief(Trace[TLCGet(1)])>>, FALSE)
==============================================================================
