SPECIFICATION Spec
CONSTANTS R = 2 W = 2 NBuf = 2 CapReq = 1 CapOut = 1 CapMerged = 2 CapErr = 1 AllowCancel = TRUE Bug = "none"
INVARIANTS WireFaithful WireNoDup NoCancelComplete DoneAfterLastWrite ErrorsNeverInvented
PROPERTIES ObsSpec 
CHECK_DEADLOCK FALSE
