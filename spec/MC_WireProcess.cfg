SPECIFICATION Spec
CONSTANTS Vpn = FALSE Fixed = TRUE MaxFrames = 3
INVARIANTS AtMostOnePerFrame NoPhantom ChainPresent
CHECK_DEADLOCK FALSE
