SPECIFICATION TSpec
CONSTRAINT HighWater
POSTCONDITION TraceAccepted
CHECK_DEADLOCK FALSE
