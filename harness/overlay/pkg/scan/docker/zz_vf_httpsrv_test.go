//go:build verif

package docker

// Scripted HTTP(S) server for C10: one behaviour per request path, chosen by the scenario.

import (
	"bufio"
	"crypto/ecdsa"
	"crypto/elliptic"
	"crypto/rand"
	"crypto/tls"
	"crypto/x509"
	"crypto/x509/pkix"
	"math/big"
	"net"
	"strings"
	"sync"
	"time"
)

type vfHTTPSrv struct {
	ln      net.Listener
	https   bool
	mu      sync.Mutex
	byPath  func(method, path string) string // behaviour for a request
	reqs    []string
	stallFor time.Duration
	objN     int
}

func vfSelfSigned() tls.Certificate {
	key, _ := ecdsa.GenerateKey(elliptic.P256(), rand.Reader)
	tmpl := &x509.Certificate{SerialNumber: big.NewInt(1), Subject: pkix.Name{CommonName: "vf"}, NotBefore: time.Now().Add(-time.Hour),
		NotAfter: time.Now().Add(24 * time.Hour), IPAddresses: []net.IP{net.IPv4(127, 0, 0, 1)}}
	der, _ := x509.CreateCertificate(rand.Reader, tmpl, tmpl, &key.PublicKey, key)
	return tls.Certificate{Certificate: [][]byte{der}, PrivateKey: key}
}

func vfNewHTTPSrv(https bool, stallFor time.Duration) *vfHTTPSrv {
	ln, err := net.Listen("tcp4", "127.0.0.1:0")
	if err != nil {
		panic(err)
	}
	s := &vfHTTPSrv{ln: ln, https: https, stallFor: stallFor}
	var cfg *tls.Config
	if https {
		cfg = &tls.Config{Certificates: []tls.Certificate{vfSelfSigned()}}
	}
	go func() {
		for {
			c, err := ln.Accept()
			if err != nil {
				return
			}
			go s.serve(c, cfg)
		}
	}()
	return s
}

func (s *vfHTTPSrv) port() int { return s.ln.Addr().(*net.TCPAddr).Port }

func (s *vfHTTPSrv) set(f func(method, path string) string) {
	s.mu.Lock()
	s.byPath = f
	s.reqs = nil
	s.mu.Unlock()
}

func (s *vfHTTPSrv) requests() []string {
	s.mu.Lock()
	defer s.mu.Unlock()
	return append([]string{}, s.reqs...)
}

func (s *vfHTTPSrv) serve(raw net.Conn, cfg *tls.Config) {
	defer raw.Close()
	var c net.Conn = raw
	if cfg != nil {
		tc := tls.Server(raw, cfg)
		raw.SetDeadline(time.Now().Add(3 * time.Second))
		if err := tc.Handshake(); err != nil {
			return
		}
		raw.SetDeadline(time.Time{})
		c = tc
	}
	br := bufio.NewReader(c)
	c.SetReadDeadline(time.Now().Add(3 * time.Second))
	line, err := br.ReadString('\n')
	if err != nil {
		return
	}
	parts := strings.Fields(line)
	if len(parts) < 2 {
		return
	}
	for { // headers
		h, err := br.ReadString('\n')
		if err != nil || h == "\r\n" || h == "\n" {
			break
		}
	}
	method, path := parts[0], parts[1]
	s.mu.Lock()
	f := s.byPath
	s.reqs = append(s.reqs, method+" "+path)
	s.mu.Unlock()
	beh := f(method, path)
	body := map[string]string{
		"object": `{"cluster_name":"vf\"q","version":{"number":"7.1"},"n":1,"ApiVersion":"1.40","ID":"vfid","Name":"vfname","Version":"20.10"}`, "emptyObject": `{}`, "array": `[1,2]`, "scalar": `5`, "null": `null`, "truncated": `{"a":`, "notJson": `<html>no</html>`,
		"string": `"text"`, "objectTrailing": `{"a":1} xyz`,
	}
	hdr := "HTTP/1.1 200 OK\r\nContent-Type: application/json\r\nApi-Version: 1.40\r\nConnection: close\r\n"
	switch beh {
	case "stallHeaders":
		time.Sleep(s.stallFor)
	case "stallBody":
		c.Write([]byte(hdr + "Content-Length: 100\r\n\r\n{\"a\":"))
		time.Sleep(s.stallFor)
	case "endless":
		c.Write([]byte(hdr + "Transfer-Encoding: chunked\r\n\r\n"))
		c.Write([]byte("5\r\n{\"a\":\r\n"))
		deadline := time.Now().Add(s.stallFor)
		for time.Now().Before(deadline) {
			if _, err := c.Write([]byte("4\r\n\"xx\"\r\n")); err != nil {
				return
			}
			time.Sleep(5 * time.Millisecond)
		}
	case "close":
		return
	case "status404object":
		b := body["object"]
		c.Write([]byte("HTTP/1.1 404 Not Found\r\nContent-Type: application/json\r\nConnection: close\r\nContent-Length: " + itoa(len(b)) + "\r\n\r\n" + b))
	case "status500":
		c.Write([]byte("HTTP/1.1 500 Internal Server Error\r\nContent-Type: text/plain\r\nConnection: close\r\nContent-Length: 4\r\n\r\noops"))
	default:
		b, ok := body[beh]
		if !ok {
			b = beh
		}
		if method == "HEAD" {
			c.Write([]byte(hdr + "Content-Length: 0\r\n\r\n"))
			return
		}
		// an object is delivered in one of three ways, in turn: in one piece; headers first and the body 30 ms later; with a member
		// that makes the body far larger than any read buffer (the decoder must still be able to read the body after the headers)
		if beh == "object" {
			s.mu.Lock()
			s.objN++
			style := s.objN % 3
			s.mu.Unlock()
			switch style {
			case 1:
				c.Write([]byte(hdr + "Content-Length: " + itoa(len(b)) + "\r\n\r\n"))
				time.Sleep(30 * time.Millisecond)
				c.Write([]byte(b))
				return
			case 2:
				b = b[:len(b)-1] + `,"vfpad":"` + strings.Repeat("p", 300000) + `"}`
			}
		}
		c.Write([]byte(hdr + "Content-Length: " + itoa(len(b)) + "\r\n\r\n" + b))
	}
}

func itoa(n int) string {
	if n == 0 {
		return "0"
	}
	s := ""
	for n > 0 {
		s = string(rune('0'+n%10)) + s
		n /= 10
	}
	return s
}
