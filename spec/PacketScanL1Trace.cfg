SPECIFICATION TSpec
CONSTANTS R = 3 W = 2 NBuf = 6 CapReq = 1 CapOut = 100 CapMerged = 200 CapErr = 100 AllowCancel = TRUE Bug = "none"
CONSTRAINT HighWater
INVARIANTS WireFaithful WireNoDup NoCancelComplete DoneAfterLastWrite ErrorsNeverInvented
POSTCONDITION TraceAccepted
CHECK_DEADLOCK FALSE
