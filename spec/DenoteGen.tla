------------------------------ MODULE DenoteGen ------------------------------
(* Scenario generation for C01 / C02 (specification -> implementation): concrete subnets (aligned and       *)
(* unaligned base addresses, prefix lengths /24../32 and a few shorter ones), lists of port ranges (single   *)
(* ports, adjacent, overlapping, boundary ports) and exclusion lists (hosts, nested and overlapping CIDRs,   *)
(* the whole subnet, unrelated networks).                                                                     *)
EXTENDS Integers, Sequences, FiniteSets, TLC, Json, IOUtils, SequencesExt
Full == IOEnv.VF_FULL = "1"
Bases == {<<10, 77, 3, 0>>, <<10, 77, 3, 77>>, <<10, 77, 255, 250>>, <<192, 168, 0, 129>>, <<0, 0, 0, 0>>, <<255, 255, 255, 255>>}
Lens == IF Full THEN 22..32 ELSE {24, 26, 27, 29, 30, 31, 32}
Nets == {[ip |-> b, len |-> n] : b \in Bases, n \in Lens} \cup {[ip |-> <<10, 77, 3, 0>>, len |-> 22]}   \* one net with far more addresses than any buffer
R(a, b) == [lo |-> a, hi |-> b]
RangeLists == { <<>>, <<R(80, 80)>>, <<R(80, 82)>>, <<R(80, 82), R(81, 81)>>, <<R(80, 81), R(82, 83)>>, <<R(81, 81), R(81, 81)>>,
                <<R(1, 1), R(65535, 65535)>>, <<R(65534, 65535), R(65535, 65535), R(1, 2)>>, <<R(443, 443), R(80, 80), R(22, 25)>> }
ExclFor(n) == LET b == n.ip IN
   { <<>>,
     << [ip |-> b, len |-> 32] >>,
     << [ip |-> <<b[1], b[2], b[3], (b[4] + 1) % 256>>, len |-> 32], [ip |-> b, len |-> 30] >>,
     << [ip |-> b, len |-> 26], [ip |-> b, len |-> 28] >>,                                   \* nested, wide then narrow
     << [ip |-> b, len |-> 30], [ip |-> b, len |-> 25] >>,                                   \* nested, narrow then wide (same base address)
     << [ip |-> b, len |-> 32], [ip |-> <<b[1], b[2], b[3], 0>>, len |-> 24], [ip |-> b, len |-> 32] >>,   \* a host, then the net around it, then the host again
     << [ip |-> <<b[1], b[2], b[3], 128>>, len |-> 25], [ip |-> <<b[1], b[2], b[3], 192>>, len |-> 26], [ip |-> <<1, 2, 3, 4>>, len |-> 32] >>,
     << [ip |-> <<b[1], b[2], 0, 0>>, len |-> 16] >>,                                         \* covers the whole target
     << [ip |-> <<203, 0, 113, 0>>, len |-> 24] >> }                                          \* unrelated
\* whole-space port ranges (port 0 is a legal bound) on a single host
BigRanges == { <<R(0, 65535)>>, <<R(0, 0), R(0, 1)>>, <<R(1, 65535)>>, <<R(32767, 32769), R(0, 0)>> }
Scen == UNION {{[net |-> n, ranges |-> r, exclude |-> e] : r \in RangeLists, e \in ExclFor(n)} : n \in Nets}
        \cup {[net |-> [ip |-> <<10, 77, 3, 77>>, len |-> 32], ranges |-> r, exclude |-> <<>>] : r \in BigRanges}
ASSUME PrintT(<<"scenarios", Cardinality(Scen)>>)
ASSUME LET S == SetToSeq(Scen) IN ndJsonSerialize(IOEnv.VF_OUT, S)
VARIABLE x
Init == x = 0
Next == UNCHANGED x
=============================================================================
