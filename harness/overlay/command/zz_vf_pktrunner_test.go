//go:build verif

package command

// C12 / C16 / C07 harness (packet path under the real runner): scan.SetupPacketEngine (real sender,
// receiver, PacketEngine, mergeErrChan) with the real packet source / multi-generator, driven by the
// real startScanEngine with the real JSON logger, between a recording RequestGenerator, PacketFiller,
// ReadWriter, Logger.Error and io.Writer. The reader delivers scripted "reply" frames at scripted
// moments (relative to the last probe) which the processor turns into results.

import (
	"bytes"
	"context"
	"encoding/binary"
	"encoding/json"
	"errors"
	"fmt"
	"math/rand"
	"net"
	"os"
	"runtime"
	"strconv"
	"sync"
	"sync/atomic"
	"testing"
	"time"

	"github.com/google/gopacket"
	"github.com/v-byte-cpu/sx/command/log"
	"github.com/v-byte-cpu/sx/pkg/packet"
	"github.com/v-byte-cpu/sx/pkg/scan"
	"github.com/v-byte-cpu/sx/pkg/scan/icmp"
)

type vfPktCfg struct {
	N         int
	W         int
	ReqErr    float64
	FillErr   float64
	WriteErr  float64
	WriteUS   int // time a write takes (the send phase lasts N*WriteUS)
	ErrLogUS  int // time Logger.Error takes (a slow / blocked stderr)
	ExitDelay time.Duration
	Replies   []float64 // reply k is delivered to the reader at lastProbe + Replies[k]*ExitDelay (fractions; > 1: too late)
	CancelAt  int       // Ctrl-C at the k-th seam event (0: never)
	CancelErr int       // Ctrl-C when the j-th error reaches the log (0: never): by then every buffer behind a stalled log is full
	Procs     int
	Real      bool          // frames are built by one real icmp filler shared by all builders (as the commands do), not by the harness
	BadEvery  time.Duration // frames whose processing fails keep arriving from the last probe on, one every BadEvery, for BadFor
	BadFor    time.Duration // (a stream of errors during - and, if the scan does not exit, beyond - the exit delay)
}

type vfPktErr struct {
	kind string
	id   int
}

func (e *vfPktErr) Error() string { return fmt.Sprintf("vf-%s-%d", e.kind, e.id) }

type vfPkt struct {
	cfg       vfPktCfg
	sink      *vfSink
	t0        time.Time
	reqErr    map[int]bool
	fillFail  map[int]bool
	writeFail map[int]bool
	built     sync.Map
	done      atomic.Value
	cancelCmd context.CancelFunc
	nev       int
	nerr      int
	cancelled bool
	cancelCh  chan struct{}
	stop      chan struct{} // closed when the engine's context is cancelled: the socket is closed
	ctxSeen   chan struct{}
	lastWrite chan time.Time
	settled   int64 // requests that reached a final state (error request / fill error / write end)
	results   scan.ResultChan
	psrc      scan.PacketSource
	real      scan.PacketFiller
}

func (p *vfPkt) us() int { return int(time.Since(p.t0) / time.Microsecond) }

func (p *vfPkt) ev(m map[string]interface{}) {
	p.sink.mu.Lock()
	if _, ok := m["t"]; !ok {
		m["t"] = p.us()
	}
	p.sink.logLocked(m)
	p.nev++
	if m["ev"] == "ErrSeen" {
		p.nerr++
	}
	if ((p.cfg.CancelAt > 0 && p.nev == p.cfg.CancelAt) || (p.cfg.CancelErr > 0 && m["ev"] == "ErrSeen" && p.nerr == p.cfg.CancelErr)) && !p.cancelled && !p.sink.sealed {
		p.cancelled = true
		p.sink.logLocked(map[string]interface{}{"ev": "Cancel", "t": p.us()})
		p.cancelCmd()
		close(p.cancelCh)
	}
	p.sink.mu.Unlock()
}

func (p *vfPkt) settle() {
	if int(atomic.AddInt64(&p.settled, 1)) == p.cfg.N {
		// the last request reached its final state: from now on the send phase is over
		p.ev(map[string]interface{}{"ev": "LastProbe"})
		select {
		case p.lastWrite <- time.Now():
		default:
		}
	}
}

func (p *vfPkt) GenerateRequests(ctx context.Context, _ *scan.Range) (<-chan *scan.Request, error) {
	out := make(chan *scan.Request, 100)
	go func() {
		defer close(out)
		for i := 1; i <= p.cfg.N; i++ {
			req := &scan.Request{DstIP: vfAppIP(i), DstPort: uint16(i), SrcIP: net.IPv4(10, 255, 0, 1).To4()}
			if p.reqErr[i] {
				req = &scan.Request{Err: &vfPktErr{"req", i}}
			}
			if ctx.Err() != nil {
				return
			}
			p.ev(map[string]interface{}{"ev": "Gen", "id": i, "err": p.reqErr[i]})
			if p.reqErr[i] {
				p.settle()
			}
			select {
			case <-ctx.Done():
				return
			case out <- req:
			}
		}
	}()
	return out, nil
}

func (p *vfPkt) Fill(buf gopacket.SerializeBuffer, r *scan.Request) error {
	id := vfAppID(r.DstIP)
	p.ev(map[string]interface{}{"ev": "FillBegin", "id": id})
	if p.fillFail[id] {
		p.ev(map[string]interface{}{"ev": "FillEnd", "id": id, "ok": false})
		p.settle()
		return &vfPktErr{"fill", id}
	}
	if p.real != nil {
		// the frame identifies its request by its destination address (bytes 30..33 of an Ethernet/IPv4 frame)
		r.SrcMAC, r.DstMAC = []byte{2, 0, 0, 0, 0, 1}, []byte{2, 0, 0, 0, 0, 2}
		if err := p.real.Fill(buf, r); err != nil {
			panic(err)
		}
	} else {
		lr := rand.New(rand.NewSource(int64(id) * 2654435761))
		payload := make([]byte, 16+lr.Intn(80))
		lr.Read(payload)
		binary.BigEndian.PutUint64(payload, uint64(id))
		if err := gopacket.SerializeLayers(buf, gopacket.SerializeOptions{}, gopacket.Payload(payload)); err != nil {
			panic(err)
		}
	}
	cp := make([]byte, len(buf.Bytes()))
	copy(cp, buf.Bytes())
	p.built.Store(id, cp)
	p.ev(map[string]interface{}{"ev": "FillEnd", "id": id, "ok": true})
	return nil
}

type vfPktRW struct {
	p       *vfPkt
	reads   int
	lastAt  time.Time
	haveEnd bool
}

func (w *vfPktRW) WritePacketData(pkt []byte) error {
	p := w.p
	entry := make([]byte, len(pkt))
	copy(entry, pkt)
	id, same := 0, false
	if p.real != nil && len(entry) >= 34 {
		cand := vfAppID(net.IP(entry[30:34]))
		if b, ok := p.built.Load(cand); ok {
			id = cand
			same = bytes.Equal(b.([]byte), entry)
		}
	} else if len(entry) >= 8 {
		cand := int(binary.BigEndian.Uint64(entry))
		if b, ok := p.built.Load(cand); ok {
			id = cand
			same = bytes.Equal(b.([]byte), entry)
		}
	}
	doneClosed := false
	if d, ok := p.done.Load().(<-chan interface{}); ok && d != nil {
		select {
		case <-d:
			doneClosed = true
		default:
		}
	}
	p.ev(map[string]interface{}{"ev": "WriteBegin", "id": id, "doneClosed": doneClosed})
	if p.cfg.WriteUS > 0 {
		time.Sleep(time.Duration(p.cfg.WriteUS) * time.Microsecond)
	}
	if !bytes.Equal(entry, pkt) {
		same = false
	}
	fail := p.writeFail[id]
	p.ev(map[string]interface{}{"ev": "WriteEnd", "id": id, "ok": !fail, "same": same})
	p.settle()
	if fail {
		return &vfPktErr{"write", id}
	}
	return nil
}

// the reader: an idle socket that delivers reply k at lastProbe + Replies[k]*ExitDelay; closed with the run context
func (w *vfPktRW) ReadPacketData() ([]byte, *gopacket.CaptureInfo, error) {
	p := w.p
	if !w.haveEnd {
		select {
		case t := <-p.lastWrite:
			w.lastAt, w.haveEnd = t, true
		case <-p.stop:
			return nil, nil, errors.New("read: use of closed file")
		}
	}
	if p.cfg.BadEvery > 0 {
		w.reads++
		at := w.lastAt.Add(time.Duration(w.reads) * p.cfg.BadEvery)
		if at.Sub(w.lastAt) <= p.cfg.BadFor {
			tm := time.NewTimer(time.Until(at))
			select {
			case <-tm.C:
			case <-p.stop:
				tm.Stop()
				return nil, nil, errors.New("read: use of closed file")
			}
			data := make([]byte, 8)
			binary.BigEndian.PutUint32(data, uint32(w.reads)|0x80000000)
			return data, &gopacket.CaptureInfo{}, nil
		}
		<-p.stop
		return nil, nil, errors.New("read: use of closed file")
	}
	if w.reads < len(p.cfg.Replies) {
		at := w.lastAt.Add(time.Duration(p.cfg.Replies[w.reads] * float64(p.cfg.ExitDelay)))
		tm := time.NewTimer(time.Until(at))
		select {
		case <-tm.C:
		case <-p.stop:
			tm.Stop()
			return nil, nil, errors.New("read: use of closed file")
		}
		w.reads++
		data := make([]byte, 8)
		binary.BigEndian.PutUint32(data, uint32(w.reads))
		p.ev(map[string]interface{}{"ev": "Inject", "k": w.reads, "frac1000": int(p.cfg.Replies[w.reads-1] * 1000)})
		return data, &gopacket.CaptureInfo{}, nil
	}
	<-p.stop
	return nil, nil, errors.New("read: use of closed file")
}

// packet method: the real packet source, a processor that reports every delivered frame, the real result channel
func (p *vfPkt) Packets(ctx context.Context, r *scan.Range) <-chan *packet.BufferData {
	// the context handed to the engine: observe its cancellation (the exit delay is over / Ctrl-C)
	go func() {
		<-ctx.Done()
		p.ev(map[string]interface{}{"ev": "CtxCancelled"})
		close(p.stop)
		close(p.ctxSeen)
	}()
	return p.psrc.Packets(ctx, r)
}
func (p *vfPkt) ProcessPacketData(data []byte, _ *gopacket.CaptureInfo) error {
	k := int(binary.BigEndian.Uint32(data))
	if k&0x80000000 != 0 {
		k &= 0x7fffffff
		p.ev(map[string]interface{}{"ev": "RcvFail", "id": k})
		return &vfPktErr{"rcv", k}
	}
	p.results.Put(&vfResult{k})
	return nil
}
func (p *vfPkt) Results() <-chan scan.Result { return p.results.Chan() }

type vfPktEngine struct {
	scan.EngineResulter
	p *vfPkt
}

func (e *vfPktEngine) Start(ctx context.Context, r *scan.Range) (<-chan interface{}, <-chan error) {
	done, errc := e.EngineResulter.Start(ctx, r)
	e.p.done.Store(done)
	go func() {
		<-done
		e.p.ev(map[string]interface{}{"ev": "DoneSeen"})
	}()
	return done, errc
}

type vfPktLogger struct {
	log.Logger
	p *vfPkt
}

func (l *vfPktLogger) Error(err error) {
	var pe *vfPktErr
	kind, id := "foreign", 0
	if errors.As(err, &pe) {
		kind, id = pe.kind, pe.id
	}
	l.p.ev(map[string]interface{}{"ev": "ErrSeen", "kind": kind, "id": id, "text": err.Error()})
	if l.p.cfg.ErrLogUS > 0 {
		time.Sleep(time.Duration(l.p.cfg.ErrLogUS) * time.Microsecond)
	}
}

type vfPktWriter struct {
	p   *vfPkt
	all bytes.Buffer
}

func (w *vfPktWriter) Write(b []byte) (int, error) {
	w.all.Write(b)
	var rec struct {
		ID *int `json:"vfid"`
	}
	if len(b) == 0 || b[len(b)-1] != '\n' || bytes.Count(b, []byte{'\n'}) != 1 || json.Unmarshal(b[:len(b)-1], &rec) != nil || rec.ID == nil {
		w.p.ev(map[string]interface{}{"ev": "Garbled", "text": string(b)})
		return len(b), nil
	}
	w.p.ev(map[string]interface{}{"ev": "Line", "k": *rec.ID})
	return len(b), nil
}

func vfRunPkt(cfg vfPktCfg, seed int64) []map[string]interface{} {
	rnd := rand.New(rand.NewSource(seed))
	p := &vfPkt{cfg: cfg, sink: &vfSink{}, t0: time.Now(), reqErr: map[int]bool{}, fillFail: map[int]bool{}, writeFail: map[int]bool{},
		cancelCh: make(chan struct{}), stop: make(chan struct{}), ctxSeen: make(chan struct{}), lastWrite: make(chan time.Time, 1)}
	for i := 1; i <= cfg.N; i++ {
		switch {
		case rnd.Float64() < cfg.ReqErr:
			p.reqErr[i] = true
		case rnd.Float64() < cfg.FillErr:
			p.fillFail[i] = true
		case rnd.Float64() < cfg.WriteErr:
			p.writeFail[i] = true
		}
	}
	if cfg.Procs > 0 {
		defer runtime.GOMAXPROCS(runtime.GOMAXPROCS(cfg.Procs))
	}
	// exact: with the default (or a larger) exit delay and an error log that keeps up, everything is reported before the return
	exact := cfg.ExitDelay >= 300*time.Millisecond && cfg.ErrLogUS <= 50 && cfg.CancelAt == 0 && cfg.CancelErr == 0 && cfg.BadEvery == 0 // (a receive error at the very end of the delay may go unreported)
	p.sink.log(map[string]interface{}{"ev": "Reset", "n": cfg.N, "w": cfg.W, "limited": false, "exact": exact,
		"delayUs": int(cfg.ExitDelay / time.Microsecond), "replies": len(cfg.Replies)})

	cmdCtx, cancelCmd := context.WithCancel(context.Background())
	p.cancelCmd = cancelCmd
	defer cancelCmd()
	if cfg.Real {
		io := &icmpCmdOpts{ipTTL: 64, ipFlags: 2, ipProtocol: 1, icmpType: 8, icmpPayload: []byte("vf-real-filler")}
		p.real = icmp.NewPacketFiller(io.getICMPOptions()...)
	}
	p.results = scan.NewResultChan(cmdCtx, 1000)
	p.psrc = scan.NewPacketSource(p, scan.NewPacketMultiGenerator(p, cfg.W))
	engine := &vfPktEngine{scan.SetupPacketEngine(&vfPktRW{p: p}, p), p}
	w := &vfPktWriter{p: p}
	inner, err := log.NewLogger(w, "vf", log.JSON())
	if err != nil {
		panic(err)
	}
	ret := make(chan struct{})
	go func() {
		_ = startScanEngine(cmdCtx, engine, newEngineConfig(withLogger(&vfPktLogger{inner, p}), withScanRange(&scan.Range{}), withExitDelay(cfg.ExitDelay)))
		p.ev(map[string]interface{}{"ev": "Returned"})
		close(ret)
	}()
	select {
	case <-ret:
	case <-p.cancelCh:
		select {
		case <-ret:
		case <-time.After(10 * time.Second):
			p.sink.log(map[string]interface{}{"ev": "Hang", "what": "startScanEngine did not return 10 s after cancel", "t": p.us()})
			return p.sink.seal()
		}
	case <-time.After(cfg.ExitDelay + time.Duration(cfg.N*cfg.WriteUS)*time.Microsecond + 60*time.Second):
		p.sink.log(map[string]interface{}{"ev": "Hang", "what": "startScanEngine did not return", "t": p.us()})
		cancelCmd()
		return p.sink.seal()
	}
	if b := w.all.Bytes(); len(b) > 0 && b[len(b)-1] != '\n' {
		p.sink.log(map[string]interface{}{"ev": "Garbled", "text": "output does not end with a newline", "t": p.us()})
	}
	return p.sink.seal()
}

func TestVfPktRunner(t *testing.T) {
	out := vfOpenOut(t, "VF_OUT")
	defer out.close()
	seed, _ := strconv.ParseInt(os.Getenv("VERIF_SEED"), 10, 64)
	ndelay, _ := strconv.Atoi(os.Getenv("VF_DELAY_RUNS"))
	ncancel, _ := strconv.Atoi(os.Getenv("VF_CANCEL_RUNS"))
	rnd := rand.New(rand.NewSource(seed*32452843 + 5))
	runs := 0
	// C16: exit delay honoured; replies inside the delay are reported; send phases shorter and longer than the delay
	for k := 0; k < ndelay; k++ {
		c := vfPktCfg{N: 1 + rnd.Intn(40), W: []int{1, 2, 8}[rnd.Intn(3)], Procs: []int{2, 4, 16}[rnd.Intn(3)]}
		c.ExitDelay = []time.Duration{600, 450, 120, 900}[k%4] * time.Millisecond
		c.WriteUS = []int{0, 200, 12000}[k%3] // k%3==2: the send phase outlasts the delay
		if k%3 == 2 {
			c.N = 20 + rnd.Intn(30)
		}
		c.Replies = []float64{0.1, 0.5, 0.5, 1.6}[:1+rnd.Intn(4)]
		if k%5 == 4 {
			c.ReqErr, c.FillErr, c.WriteErr = 0.2, 0.1, 0.2
		}
		out.write(vfRunPkt(c, seed+int64(runs)))
		runs++
	}
	// C16: errors keep coming during the exit delay (frames that pass the filter but cannot be processed, one every 100 ms for 5 s):
	// the scan still exits when the delay is over
	if ndelay > 0 {
		c := vfPktCfg{N: 5, W: 2, Procs: 4, ExitDelay: 300 * time.Millisecond, BadEvery: 100 * time.Millisecond, BadFor: 5 * time.Second}
		out.write(vfRunPkt(c, seed+int64(runs)))
		runs++
	}
	// C07 with a real filler: one icmp filler shared by all builders, as the commands wire it; many requests, 8-16 builders
	nreal, _ := strconv.Atoi(os.Getenv("VF_REAL_RUNS"))
	for k := 0; k < nreal; k++ {
		c := vfPktCfg{N: 2000 + rnd.Intn(2000), W: []int{8, 16}[k%2], Procs: 16, ExitDelay: 50 * time.Millisecond, Real: true}
		out.write(vfRunPkt(c, seed+int64(runs)))
		runs++
	}
	// C12: Ctrl-C at the k-th seam event: every k of small runs ...
	for k := 0; k < ncancel; k++ {
		c := vfPktCfg{N: []int{3, 6}[k%2], W: []int{2, 1}[k%2], ExitDelay: 40 * time.Millisecond, Procs: 4}
		c.ReqErr, c.FillErr, c.WriteErr = 0.2, 0.1, 0.3
		c.Replies = []float64{0.3}
		probe := vfRunPkt(c, seed+int64(runs))
		out.write(probe)
		runs++
		for at := 1; at <= len(probe)+1; at++ {
			c.CancelAt = at
			out.write(vfRunPkt(c, seed+int64(runs)))
			runs++
		}
	}
	// ... and with every buffer full: failing writes, an error log that stalls, cancel somewhere in the middle
	for k := 0; k < ncancel*4; k++ {
		c := vfPktCfg{N: 400 + rnd.Intn(600), W: []int{1, 4, 16}[k%3], ExitDelay: 100 * time.Millisecond, Procs: []int{2, 16}[k%2]}
		c.WriteErr = []float64{1, 0.7}[k%2]
		c.ReqErr = 0.1
		c.ErrLogUS = []int{2000, 300}[k%2]
		c.CancelAt = 250 + rnd.Intn(c.N*2)
		out.write(vfRunPkt(c, seed+int64(runs)))
		runs++
	}
	// the sender parked on its full error channel, the merged channel full, the log stalled: cancel exactly then
	for k := 0; k < ncancel*8; k++ {
		c := vfPktCfg{N: 450 + rnd.Intn(300), W: []int{1, 4, 16}[k%3], ExitDelay: 100 * time.Millisecond, Procs: []int{2, 16}[k%2]}
		c.WriteErr = 1
		c.ErrLogUS = 4000
		c.CancelErr = 3 + rnd.Intn(4)
		out.write(vfRunPkt(c, seed+int64(runs)))
		runs++
	}
	fmt.Printf("VF_RUNS=%d VF_EVENTS=%d\n", runs, out.n)
}
