--------------------------- MODULE ScanRunTrace ---------------------------
(* Trace validation of ONE run of the real sx binary on the virtual wire against ScanRun: the events are what the far end of the   *)
(* wire saw, in capture-time order -                                                                                              *)
(*   Start{expect}   Probe{t, bytes}   Inject{t, bytes}   Sigint{t}   Exit{t, code, records}                                                   *)
(* - and the steps nobody outside can see (a pass opens its socket, the engine signals done, a record is printed, the exit delay   *)
(* runs out and the pass is closed) are taken silently by TLC, with the time of the next observed event as the latest moment they    *)
(* can have happened. ScanRun's constants are those of this run (one TLC process per run; they run in parallel).                    *)
EXTENDS Integers, Sequences, FiniteSets, TLC, Json, IOUtils
T4 == INSTANCE IPv4
WD == INSTANCE WireDecode
Run == ndJsonDeserialize(IOEnv.VERIF_TRACE)
X == Run[1].expect
Tol == 25000                  \* capture latency tolerance on the lower bound of the exit delay (microseconds)
LatUs == 150000               \* a frame accepted at least this long before its pass is closed has been printed
ExitBound == 4000000
U16(s, i) == s[i] * 256 + s[i + 1]
Off == IF X.vpn THEN 0 ELSE 14
DstOf(b) == IF X.scan = "arp" THEN <<SubSeq(b, 39, 42), 0>>
            ELSE IF X.scan = "icmp" THEN <<SubSeq(b, Off + 17, Off + 20), 0>>
            ELSE <<SubSeq(b, Off + 17, Off + 20), U16(b, Off + 23)>>
Ports(ranges) == UNION {ranges[i].lo..ranges[i].hi : i \in 1..Len(ranges)}
Excluded(ip) == \E i \in 1..Len(X.target.exclude) : T4!InNet(ip, X.target.exclude[i])
Addrs == {a \in T4!NetAddrs(X.target.net) : ~Excluded(a)}
KeysOf(ch) == IF X.target.pairs # <<>> THEN {<<X.target.pairs[i].ip, X.target.pairs[i].port>> : i \in 1..Len(X.target.pairs)}
              ELSE IF X.chunkRanges[ch] = <<>> THEN {<<a, 0>> : a \in Addrs}
              ELSE {<<a, p>> : a \in Addrs, p \in Ports(X.chunkRanges[ch])}
CK == [ch \in 1..Len(X.chunkRanges) |-> KeysOf(ch)]
Cfg(ch) == [scan |-> X.scan, vpn |-> X.vpn, hasNet |-> X.hasNet, net |-> X.target.net, ranges |-> X.chunkRanges[ch]]
AccT(f, ch) == WD!ReplyShape(Cfg(ch), f)
RecT(f, ch) == WD!RecordOf(Cfg(ch), f)
VARIABLES l, c, phase, sentN, now, openT, lastSend, queue, out, hist, closeT, cancelled
S == INSTANCE ScanRun WITH ChunkKeys <- CK, Frames <- {}, Acc <- AccT, Rec <- RecT, Delay <- X.delayUs - Tol, Lat <- LatUs, MaxT <- 0,
                           Variant <- "asbuilt", AttachAtomic <- TRUE, InFlight <- 16
svars == <<c, phase, sentN, now, openT, lastSend, queue, out, hist, closeT, cancelled>>
E == Run[l]
Is(e) == l <= Len(Run) /\ E.ev = e /\ l' = l + 1
RecMatches(r, w) == CASE X.scan = "arp" -> r.ip = w.ip /\ r.mac = w.mac
                      [] X.scan \in {"udp", "icmp"} -> r.ip = w.ip /\ r.type = w.type /\ r.code = w.code /\ r.ttl = w.ttl
                      [] OTHER -> r.ip = w.ip /\ r.port = w.port /\ r.flags = w.flags
Same(a, b) == CASE X.scan = "arp" -> a.ip = b.ip /\ a.mac = b.mac
                [] X.scan \in {"udp", "icmp"} -> a.ip = b.ip /\ a.type = b.type /\ a.code = b.code /\ a.ttl = b.ttl
                [] OTHER -> a.ip = b.ip /\ a.port = b.port /\ a.flags = b.flags
Init == l = 2 /\ S!Init
TProbe == Is("Probe") /\ S!Send(DstOf(E.bytes), E.t)
TInject == Is("Inject") /\ S!Arrive(E.bytes, E.t)
\* the process exits: every pass is over, the exit status is 0, exit follows the last close within bounded time, and standard output
\* holds exactly the records that were printed (as a bag)
TSigint == Is("Sigint") /\ S!Cancel(E.t)
TExit == /\ Is("Exit") /\ phase = "done" /\ E.code = 0
         /\ (IF cancelled.on THEN E.t <= cancelled.t + ExitBound ELSE E.t <= closeT[Len(closeT)].last + X.delayUs + ExitBound)
         /\ Len(E.records) = Len(out)
         /\ \A i \in 1..Len(out) : Cardinality({k \in 1..Len(E.records) : RecMatches(E.records[k], out[i].r)}) = Cardinality({j \in 1..Len(out) : Same(out[j].r, out[i].r)})
         /\ UNCHANGED svars
\* silent steps, never later than the next observed event
Tn == Run[l].t
SOpen == l <= Len(Run) /\ Run[l].ev = "Probe" /\ S!Open(Tn) /\ UNCHANGED l
SFinish == S!FinishSending /\ UNCHANGED l
SEmit == (\E q \in queue : S!Emit(q)) /\ UNCHANGED l
SClose == l <= Len(Run) /\ Run[l].ev \in {"Probe", "Exit", "Sigint"} /\ S!Close(Tn) /\ UNCHANGED l
SAbort == l <= Len(Run) /\ Run[l].ev = "Exit" /\ (S!Abort(Tn) \/ S!Finish(Tn)) /\ UNCHANGED l
Next == TProbe \/ TInject \/ TSigint \/ TExit \/ SOpen \/ SFinish \/ SEmit \/ SClose \/ SAbort
TSpec == Init /\ [][Next]_<<l, svars>>
HighWater == TLCSet(1, IF l > TLCGet(1) THEN l ELSE TLCGet(1))
ASSUME TLCSet(1, 0)
TraceAccepted == IF TLCGet(1) = Len(Run) + 1 THEN PrintT(<<"TRACE ACCEPTED", Len(Run)>>)
                 ELSE Print(<<"REJECTED at event", TLCGet(1), [ev |-> Run[TLCGet(1)].ev, t |-> Run[TLCGet(1)].t]>>, FALSE)
=============================================================================
