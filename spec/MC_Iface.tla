------------------------------ MODULE MC_Iface ------------------------------
(* Exhaustive evaluation of the C17 clauses on the selection relation for every small host configuration. *)
EXTENDS Iface
ASSUME PrintT(<<"configs", Cardinality(Configs)>>)
ASSUME AttachedWins /\ OverridesWin /\ VpnIffNoMac /\ NeverEmptySource
VARIABLE x
Init == x = 0
Next == UNCHANGED x
=============================================================================
