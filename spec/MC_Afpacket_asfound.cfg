SPECIFICATION Spec
CONSTANTS Frames = {"reply", "other"} Match = {"reply"} MaxArrivals = 3 DrainOnAttach = FALSE
INVARIANT FilteredOnly
CHECK_DEADLOCK FALSE
