//go:build verif

package afpacket

// C20 / C03 / finding F17 on the real AF_PACKET source (needs a private network namespace: unshare -n). The real Source on one end of
// a veth pair, the real packet.NewReceiver around it, UDP datagrams with sequence numbers injected at the other end through a raw
// packet socket (on `lo` every packet is seen twice, and a connected UDP socket drops every second datagram after an ICMP error). Events (times in microseconds):
//   Reset{cfg}  Sent{seq,t}  Attach{t}  Proc{seq}  ErrSeen{text}  Cancel{t}  CloseCalled{t}  CloseReturned{t}  ReceiverEnded{t} | Hang
//   AfterClose{read, write}
// SourceTrace.tla decides.

import (
	"context"
	"encoding/binary"
	"fmt"
	"net"
	"os"
	"os/exec"
	"strconv"
	"sync"
	"syscall"
	"testing"
	"time"

	"github.com/google/gopacket"
	"github.com/v-byte-cpu/sx/pkg/packet"
)

type vfSrcCfg struct {
	Pre     int  // datagrams sent between socket open and filter attach
	Steady  bool // traffic goes on until the end
	N       int  // datagrams sent after the attach (before the close sequence starts)
	Cancel  bool // the context is cancelled before Close (as startPacketScanEngine does); otherwise Close comes while it is alive
	QuietMS int  // silence before the close sequence (poll timeouts)
}

type vfSrcProc struct {
	sink *vfSink
}

func (p *vfSrcProc) ProcessPacketData(data []byte, _ *gopacket.CaptureInfo) error {
	// Ethernet(14) + IPv4(20) + UDP(8) + payload: "vf" + 4-byte sequence number
	if len(data) >= 48 && data[42] == 'v' && data[43] == 'f' {
		p.sink.log(map[string]interface{}{"ev": "Proc", "seq": int(binary.BigEndian.Uint32(data[44:48]))})
	} else {
		p.sink.log(map[string]interface{}{"ev": "Proc", "seq": -1})
	}
	return nil
}

func vfRunSource(t *testing.T, cfg vfSrcCfg) []map[string]interface{} {
	sink := &vfSink{}
	t0 := time.Now()
	us := func() int { return int(time.Since(t0) / time.Microsecond) }
	sink.log(map[string]interface{}{"ev": "Reset", "pre": cfg.Pre, "steady": cfg.Steady, "n": cfg.N, "cancel": cfg.Cancel})
	ifi, err := net.InterfaceByName("vs1")
	if err != nil {
		t.Fatal(err)
	}
	fd, err := syscall.Socket(syscall.AF_PACKET, syscall.SOCK_RAW, 0)
	if err != nil {
		t.Fatal(err)
	}
	defer syscall.Close(fd)
	to := &syscall.SockaddrLinklayer{Ifindex: ifi.Index, Halen: 6, Protocol: 0x0008}
	seq := 0
	var smu sync.Mutex
	send := func() {
		smu.Lock()
		defer smu.Unlock()
		seq++
		f := make([]byte, 48)
		copy(f[0:], []byte{0xff, 0xff, 0xff, 0xff, 0xff, 0xff, 2, 0, 0, 0, 7, 2, 8, 0})
		copy(f[14:], []byte{0x45, 0, 0, 34, 0, 1, 0x40, 0, 64, 17, 0, 0, 10, 7, 0, 2, 10, 7, 0, 1})
		copy(f[34:], []byte{0x9c, 0x40, 0x27, 0x0f, 0, 14, 0, 0, 'v', 'f'})
		binary.BigEndian.PutUint32(f[44:], uint32(seq))
		sink.mu.Lock()
		sink.logLocked(map[string]interface{}{"ev": "Sent", "seq": seq, "t": us()})
		_ = syscall.Sendto(fd, f, 0, to)
		sink.mu.Unlock()
	}
	src, err := NewPacketSource("vs0", false)
	if err != nil {
		t.Fatal(err)
	}
	for i := 0; i < cfg.Pre; i++ {
		send()
	}
	time.Sleep(5 * time.Millisecond)
	if err := src.SetBPFFilter("udp and dst port 9999", 1518); err != nil {
		t.Fatal(err)
	}
	sink.log(map[string]interface{}{"ev": "Attach", "t": us()})
	time.Sleep(2 * time.Millisecond)
	ctx, cancel := context.WithCancel(context.Background())
	defer cancel()
	errc := packet.NewReceiver(src, &vfSrcProc{sink}).ReceivePackets(ctx)
	ended := make(chan struct{})
	go func() {
		for err := range errc {
			sink.log(map[string]interface{}{"ev": "ErrSeen", "text": err.Error()})
		}
		sink.log(map[string]interface{}{"ev": "ReceiverEnded", "t": us()})
		close(ended)
	}()
	for i := 0; i < cfg.N; i++ {
		send()
		time.Sleep(200 * time.Microsecond)
	}
	stopTraffic := make(chan struct{})
	var twg sync.WaitGroup
	if cfg.Steady {
		twg.Add(1)
		go func() {
			defer twg.Done()
			for {
				select {
				case <-stopTraffic:
					return
				default:
				}
				send()
				time.Sleep(300 * time.Microsecond)
			}
		}()
	}
	time.Sleep(time.Duration(cfg.QuietMS)*time.Millisecond + 30*time.Millisecond)
	if cfg.Cancel {
		sink.log(map[string]interface{}{"ev": "Cancel", "t": us()})
		cancel()
	}
	sink.log(map[string]interface{}{"ev": "CloseCalled", "t": us()})
	closed := make(chan struct{})
	go func() { src.Close(); close(closed) }()
	select {
	case <-closed:
		sink.log(map[string]interface{}{"ev": "CloseReturned", "t": us()})
	case <-time.After(5 * time.Second):
		sink.log(map[string]interface{}{"ev": "Hang", "what": "Close did not return in 5 s"})
	}
	select {
	case <-ended:
	case <-time.After(5 * time.Second):
		sink.log(map[string]interface{}{"ev": "Hang", "what": "the receiver did not end 5 s after Close"})
	}
	close(stopTraffic)
	twg.Wait()
	_, _, rerr := src.ReadPacketData()
	werr := src.WritePacketData([]byte{1, 2, 3})
	sink.log(map[string]interface{}{"ev": "AfterClose", "read": fmt.Sprint(rerr), "write": fmt.Sprint(werr), "readFails": rerr != nil, "writeFails": werr != nil})
	return sink.seal()
}

func TestVfSource(t *testing.T) {
	out := vfOpenOut(t, "VF_OUT")
	defer out.close()
	if _, err := net.InterfaceByName("eth0"); err == nil {
		t.Fatal("not in a private network namespace")
	}
	for _, a := range [][]string{{"link", "add", "vs0", "type", "veth", "peer", "name", "vs1"}, {"link", "set", "vs0", "up"}, {"link", "set", "vs1", "up"}} {
		if b, err := exec.Command("ip", a...).CombinedOutput(); err != nil {
			t.Fatalf("ip %v: %v %s", a, err, b)
		}
	}
	_ = os.WriteFile("/proc/sys/net/ipv6/conf/all/disable_ipv6", []byte("1"), 0o644)
	reps, _ := strconv.Atoi(os.Getenv("VF_REPS"))
	if reps == 0 {
		reps = 1
	}
	runs := 0
	for r := 0; r < reps; r++ {
		for _, cfg := range []vfSrcCfg{
			{Pre: 0, N: 20, Cancel: true},
			{Pre: 50, N: 20, Cancel: true},
			{Pre: 200, Steady: true, N: 50, Cancel: true},
			{Pre: 0, Steady: true, N: 100, Cancel: true},
			{Pre: 0, Steady: true, N: 100, Cancel: false},
			{Pre: 10, N: 10, Cancel: false},
			{Pre: 0, N: 5, Cancel: true, QuietMS: 350},
			{Pre: 0, N: 0, Cancel: false, QuietMS: 250},
		} {
			out.write(vfRunSource(t, cfg))
			runs++
		}
	}
	fmt.Printf("VF_RUNS=%d\n", runs)
}
