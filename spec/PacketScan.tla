------------------------------ MODULE PacketScan ------------------------------
(* L1 model of pkg/scan generator.go + pkg/packet sender.go + memory.go        *)
EXTENDS Integers, Sequences, FiniteSets, TLC
CONSTANTS R, W, NBuf, CapReq, CapOut, CapMerged, CapErr, AllowCancel,
          Bug      \* "none": the code as it is; "freeEarly": buffer returned to the pool before the write (regression model, must FAIL WireFaithful)

Req   == 1..R
Wk    == 1..W
Buf   == 1..NBuf
NoPkt == [kind |-> "none", req |-> 0, buf |-> 0, ek |-> "none"]

VARIABLES ctx, gi, reqErr, reqs, reqsClosed, built, errSeenClosed,
          f, out, outClosed, m, merged, mergedClosed,
          s, errc, errcClosed, done, free, content, wire, failed, delivered, panic
vars == <<ctx, gi, reqErr, reqs, reqsClosed, built, errSeenClosed, f, out, outClosed, m, merged, mergedClosed,
          s, errc, errcClosed, done, free, content, wire, failed, delivered, panic>>

Init ==
  /\ ctx = FALSE /\ gi = 1 /\ reqErr \in SUBSET Req
  /\ reqs = <<>> /\ reqsClosed = FALSE
  /\ f = [w \in Wk |-> [pc |-> "recv", pkt |-> NoPkt]]
  /\ out = [w \in Wk |-> <<>>] /\ outClosed = [w \in Wk |-> FALSE]
  /\ m = [w \in Wk |-> [pc |-> "recv", pkt |-> NoPkt]]
  /\ merged = <<>> /\ mergedClosed = FALSE
  /\ s = [pc |-> "recv", pkt |-> NoPkt]
  /\ errc = <<>> /\ errcClosed = FALSE /\ done = FALSE
  /\ free = Buf /\ content = [b \in Buf |-> 0]
  /\ wire = <<>> /\ failed = {} /\ delivered = <<>> /\ panic = FALSE /\ built = {} /\ errSeenClosed = FALSE

(* request source: stands for any RequestGenerator; writeRequest selects on ctx *)
GenSend == /\ gi <= R /\ ~ctx /\ Len(reqs) < CapReq
           /\ reqs' = Append(reqs, gi) /\ gi' = gi + 1
           /\ failed' = IF gi \in reqErr THEN failed \cup {<<"req", gi>>} ELSE failed
           /\ UNCHANGED <<built, errSeenClosed, ctx, reqErr, reqsClosed, f, out, outClosed, m, merged, mergedClosed, s, errc, errcClosed, done, free, content, wire, delivered, panic>>
GenClose == /\ ~reqsClosed /\ (gi > R \/ ctx)
            /\ reqsClosed' = TRUE
            /\ UNCHANGED <<built, errSeenClosed, ctx, gi, reqErr, reqs, f, out, outClosed, m, merged, mergedClosed, s, errc, errcClosed, done, free, content, wire, failed, delivered, panic>>

(* packetGenerator worker w *)
FRecv(w) == /\ f[w].pc = "recv"
            /\ \/ /\ ctx /\ f' = [f EXCEPT ![w].pc = "exit"] /\ UNCHANGED reqs
               \/ /\ reqs = <<>> /\ reqsClosed /\ f' = [f EXCEPT ![w].pc = "exit"] /\ UNCHANGED reqs
               \/ /\ reqs # <<>> /\ reqs' = Tail(reqs)
                  /\ f' = [f EXCEPT ![w] = IF Head(reqs) \in reqErr
                                           THEN [pc |-> "send", pkt |-> [kind |-> "err", req |-> Head(reqs), buf |-> 0, ek |-> "req"]]
                                           ELSE [pc |-> "getbuf", pkt |-> [kind |-> "pkt", req |-> Head(reqs), buf |-> 0, ek |-> "none"]]]
            /\ UNCHANGED <<built, errSeenClosed, ctx, gi, reqErr, reqsClosed, out, outClosed, m, merged, mergedClosed, s, errc, errcClosed, done, free, content, wire, failed, delivered, panic>>
FFillBegin(w) == /\ f[w].pc = "getbuf"
                 /\ \E b \in free : /\ free' = free \ {b}
                                    /\ f' = [f EXCEPT ![w].pc = "filling", ![w].pkt.buf = b]
                 /\ UNCHANGED <<built, errSeenClosed, ctx, gi, reqErr, reqs, reqsClosed, out, outClosed, m, merged, mergedClosed, s, errc, errcClosed, done, content, wire, failed, delivered, panic>>
FFillEnd(w) == /\ f[w].pc = "filling"
               /\ \/ /\ content' = [content EXCEPT ![f[w].pkt.buf] = f[w].pkt.req]
                     /\ built' = built \cup {f[w].pkt.req}
                     /\ f' = [f EXCEPT ![w].pc = "send"] /\ UNCHANGED failed
                  \/ /\ failed' = failed \cup {<<"fill", f[w].pkt.req>>}
                     /\ f' = [f EXCEPT ![w] = [pc |-> "send", pkt |-> [kind |-> "err", req |-> f[w].pkt.req, buf |-> 0, ek |-> "fill"]]]
                     /\ UNCHANGED <<content, built>>
               /\ UNCHANGED <<errSeenClosed, ctx, gi, reqErr, reqs, reqsClosed, out, outClosed, m, merged, mergedClosed, s, errc, errcClosed, done, free, wire, delivered, panic>>
FSend(w) == /\ f[w].pc = "send"
            /\ \/ /\ ctx /\ UNCHANGED out                 \* writeBufToChan drops on ctx.Done
               \/ /\ Len(out[w]) < CapOut /\ out' = [out EXCEPT ![w] = Append(@, f[w].pkt)]
            /\ f' = [f EXCEPT ![w] = [pc |-> "recv", pkt |-> NoPkt]]
            /\ UNCHANGED <<built, errSeenClosed, ctx, gi, reqErr, reqs, reqsClosed, outClosed, m, merged, mergedClosed, s, errc, errcClosed, done, free, content, wire, failed, delivered, panic>>
FExit(w) == /\ f[w].pc = "exit" /\ ~outClosed[w]
            /\ outClosed' = [outClosed EXCEPT ![w] = TRUE]
            /\ UNCHANGED <<built, errSeenClosed, ctx, gi, reqErr, reqs, reqsClosed, f, out, m, merged, mergedClosed, s, errc, errcClosed, done, free, content, wire, failed, delivered, panic>>

(* MergeBufferDataChan multiplexer for worker w *)
MRecv(w) == /\ m[w].pc = "recv"
            /\ \/ /\ ctx /\ m' = [m EXCEPT ![w].pc = "exit"] /\ UNCHANGED out
               \/ /\ out[w] = <<>> /\ outClosed[w] /\ m' = [m EXCEPT ![w].pc = "exit"] /\ UNCHANGED out
               \/ /\ out[w] # <<>> /\ m' = [m EXCEPT ![w] = [pc |-> "send", pkt |-> Head(out[w])]]
                  /\ out' = [out EXCEPT ![w] = Tail(@)]
            /\ UNCHANGED <<built, errSeenClosed, ctx, gi, reqErr, reqs, reqsClosed, f, outClosed, merged, mergedClosed, s, errc, errcClosed, done, free, content, wire, failed, delivered, panic>>
MSend(w) == /\ m[w].pc = "send"
            /\ \/ /\ ctx /\ m' = [m EXCEPT ![w] = [pc |-> "exit", pkt |-> NoPkt]] /\ UNCHANGED merged
               \/ /\ Len(merged) < CapMerged /\ merged' = Append(merged, m[w].pkt)
                  /\ m' = [m EXCEPT ![w] = [pc |-> "recv", pkt |-> NoPkt]]
            /\ UNCHANGED <<built, errSeenClosed, ctx, gi, reqErr, reqs, reqsClosed, f, out, outClosed, mergedClosed, s, errc, errcClosed, done, free, content, wire, failed, delivered, panic>>
MClose == /\ ~mergedClosed /\ \A w \in Wk : m[w].pc = "exit"
          /\ mergedClosed' = TRUE
          /\ UNCHANGED <<built, errSeenClosed, ctx, gi, reqErr, reqs, reqsClosed, f, out, outClosed, m, merged, s, errc, errcClosed, done, free, content, wire, failed, delivered, panic>>

(* sender.SendPackets *)
SRecv == /\ s.pc = "recv"
         /\ \/ /\ ctx /\ s' = [s EXCEPT !.pc = "close"] /\ UNCHANGED merged
            \/ /\ merged = <<>> /\ mergedClosed /\ s' = [s EXCEPT !.pc = "close"] /\ UNCHANGED merged
            \/ /\ merged # <<>> /\ merged' = Tail(merged)
               /\ s' = [pc |-> IF Head(merged).kind = "err" THEN "errsend" ELSE "write", pkt |-> Head(merged)]
         /\ UNCHANGED <<built, errSeenClosed, ctx, gi, reqErr, reqs, reqsClosed, f, out, outClosed, m, mergedClosed, errc, errcClosed, done, free, content, wire, failed, delivered, panic>>
SErrSend == /\ s.pc = "errsend" /\ Len(errc) < CapErr      \* unconditional send: no ctx case
            /\ errc' = Append(errc, <<s.pkt.ek, s.pkt.req>>)
            /\ s' = [pc |-> IF s.pkt.kind = "pkt" THEN "free" ELSE "recv", pkt |-> IF s.pkt.kind = "pkt" THEN s.pkt ELSE NoPkt]
            /\ UNCHANGED <<built, errSeenClosed, ctx, gi, reqErr, reqs, reqsClosed, f, out, outClosed, m, merged, mergedClosed, errcClosed, done, free, content, wire, failed, delivered, panic>>
SWriteBegin == /\ s.pc = "write" /\ s' = [s EXCEPT !.pc = "writing"]
               /\ panic' = (panic \/ done)
               /\ free' = IF Bug = "freeEarly" THEN free \cup {s.pkt.buf} ELSE free
               /\ UNCHANGED <<built, errSeenClosed, ctx, gi, reqErr, reqs, reqsClosed, f, out, outClosed, m, merged, mergedClosed, errc, errcClosed, done, content, wire, failed, delivered>>
SWriteEnd == /\ s.pc = "writing"
             /\ \/ /\ wire' = Append(wire, [req |-> s.pkt.req, bytes |-> content[s.pkt.buf]])
                   /\ s' = [s EXCEPT !.pc = "free"] /\ UNCHANGED failed
                \/ /\ failed' = failed \cup {<<"write", s.pkt.req>>}
                   /\ s' = [s EXCEPT !.pc = "errsend", !.pkt.ek = "write"] /\ UNCHANGED wire
             /\ UNCHANGED <<built, errSeenClosed, ctx, gi, reqErr, reqs, reqsClosed, f, out, outClosed, m, merged, mergedClosed, errc, errcClosed, done, free, content, delivered, panic>>
SFree == /\ s.pc = "free"
         /\ IF Bug = "freeEarly" THEN UNCHANGED <<content, free>>
            ELSE content' = [content EXCEPT ![s.pkt.buf] = 0] /\ free' = free \cup {s.pkt.buf}
         /\ s' = [pc |-> "recv", pkt |-> NoPkt]
         /\ UNCHANGED <<built, errSeenClosed, ctx, gi, reqErr, reqs, reqsClosed, f, out, outClosed, m, merged, mergedClosed, errc, errcClosed, done, wire, failed, delivered, panic>>
SClose == /\ s.pc = "close" /\ done' = TRUE /\ errcClosed' = TRUE /\ s' = [s EXCEPT !.pc = "exit"]
          /\ UNCHANGED <<built, errSeenClosed, ctx, gi, reqErr, reqs, reqsClosed, f, out, outClosed, m, merged, mergedClosed, errc, free, content, wire, failed, delivered, panic>>

(* consumer of the sender's error stream (mergeErrChan + runner drain, abstracted) *)
ErrSeeClosed == /\ errc = <<>> /\ errcClosed /\ ~errSeenClosed /\ errSeenClosed' = TRUE
                /\ UNCHANGED <<built, ctx, gi, reqErr, reqs, reqsClosed, f, out, outClosed, m, merged, mergedClosed, s, errc, errcClosed, done, free, content, wire, failed, delivered, panic>>
ErrRecv == /\ errc # <<>> /\ delivered' = Append(delivered, Head(errc)) /\ errc' = Tail(errc)
           /\ UNCHANGED <<built, errSeenClosed, ctx, gi, reqErr, reqs, reqsClosed, f, out, outClosed, m, merged, mergedClosed, s, errcClosed, done, free, content, wire, failed, panic>>
Cancel == /\ AllowCancel /\ ~ctx /\ ctx' = TRUE
          /\ UNCHANGED <<built, errSeenClosed, gi, reqErr, reqs, reqsClosed, f, out, outClosed, m, merged, mergedClosed, s, errc, errcClosed, done, free, content, wire, failed, delivered, panic>>

Next == GenSend \/ GenClose \/ MClose \/ SRecv \/ SErrSend \/ SWriteBegin \/ SWriteEnd \/ SFree \/ SClose \/ ErrRecv \/ ErrSeeClosed \/ Cancel
        \/ \E w \in Wk : FRecv(w) \/ FFillBegin(w) \/ FFillEnd(w) \/ FSend(w) \/ FExit(w) \/ MRecv(w) \/ MSend(w)
Spec == Init /\ [][Next]_vars /\ WF_vars(Next)

Terminated == s.pc = "exit" /\ errc = <<>>
OkReq == {r \in Req : r \notin reqErr /\ <<"fill", r>> \notin failed /\ <<"write", r>> \notin failed}
SeqToSet(q) == {q[i] : i \in 1..Len(q)}
(* C07 *)
WireFaithful == \A i \in 1..Len(wire) : wire[i].bytes = wire[i].req
WireNoDup == \A i, j \in 1..Len(wire) : i # j => wire[i].req # wire[j].req
NoCancelComplete == (Terminated /\ ~ctx) =>
      /\ {wire[i].req : i \in 1..Len(wire)} = OkReq
      /\ Len(delivered) = Cardinality(failed)
      /\ SeqToSet(delivered) = failed
DoneAfterLastWrite == ~panic
ErrorsNeverInvented == Len(delivered) + Len(errc) <= Cardinality(failed)
Progress == <>(s.pc = "exit")

(* ---- refinement to the seam-level specification ---- *)
oFillBusy == {i \in Req : \E w \in Wk : f[w].pc = "filling" /\ f[w].pkt.req = i}
Obs == INSTANCE PacketScanObs WITH total <- R, nw <- W, gen <- gi - 1, genErr <- {i \in reqErr : i < gi},
          fillBusy <- oFillBusy, fillOk <- built, fillErr <- {i \in Req : <<"fill", i>> \in failed},
          wBusy <- IF s.pc = "writing" THEN s.pkt.req ELSE 0,
          wOk <- {wire[k].req : k \in 1..Len(wire)}, wErr <- {i \in Req : <<"write", i>> \in failed},
          pending <- failed, seen <- SeqToSet(delivered), done <- done, errClosed <- errSeenClosed, cancelled <- ctx,
          limited <- FALSE, charged <- 0
ObsSpec == Obs!OSpec
===============================================================================
