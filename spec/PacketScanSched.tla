--------------------------- MODULE PacketScanSched ---------------------------
(* Schedule generation for the gate-driven replay (C07 / C12): behaviours of the   *)
(* goroutine-level model PacketScan, with a history variable that records which    *)
(* process took each step. Run with `-simulate`; every behaviour that reaches the  *)
(* terminal state is printed as one JSON line (SCHED ...). The Go director steps   *)
(* the real goroutines of generator.go / sender.go through exactly this sequence.  *)
EXTENDS PacketScan, Json, IOUtils
VARIABLE hist
svars == <<vars, hist>>
H(p, w) == hist' = Append(hist, [p |-> p, w |-> w])
SInit == Init /\ hist = <<>>
SNext == \/ GenSend /\ H("gen", 0)
         \/ GenClose /\ H("genclose", 0)
         \/ MClose /\ H("mclose", 0)
         \/ (SRecv \/ SErrSend \/ SWriteBegin \/ SWriteEnd \/ SFree \/ SClose) /\ H("s", 0)
         \/ (ErrRecv \/ ErrSeeClosed) /\ H("e", 0)
         \/ Cancel /\ H("cancel", 0)
         \/ \E w \in Wk : (FRecv(w) \/ FFillBegin(w) \/ FFillEnd(w) \/ FSend(w) \/ FExit(w)) /\ H("f", w)
         \/ \E w \in Wk : (MRecv(w) \/ MSend(w)) /\ H("m", w)
SSpec == SInit /\ [][SNext]_svars
AllDone == /\ s.pc = "exit" /\ errSeenClosed /\ mergedClosed /\ reqsClosed
           /\ \A w \in Wk : outClosed[w] /\ m[w].pc = "exit"
Sched == [R |-> R, W |-> W, reqErr |-> reqErr,
          fillFail |-> {r \in Req : <<"fill", r>> \in failed},
          writeFail |-> {r \in Req : <<"write", r>> \in failed},
          cancel |-> ctx, steps |-> hist]
\* evaluated on every state of a simulated behaviour; prints at the terminal state only
Emit == AllDone => PrintT(<<"SCHED", ToJson(Sched)>>)
===============================================================================
