----------------------------- MODULE TargetsGen -----------------------------
(* Scenario generation for C01 / C02 / C11 / C13 (specification -> implementation): every well-formed  *)
(* target specification over the abstract universe, written as NDJSON for the harness.                  *)
EXTENDS Integers, Sequences, FiniteSets, TLC, Json, IOUtils, SequencesExt
NAddr == atoi(IOEnv.VF_NADDR)
NPort == atoi(IOEnv.VF_NPORT)
MaxLines == atoi(IOEnv.VF_MAXLINES)
Addr == 1..NAddr
Port == 1..NPort
Kinds == {"valid", "badjson", "badip", "noip", "badport", "noport", "toolong"}
Line  == [kind : Kinds, ip : Addr, port : Port]
SeqsUpTo(S, n) == UNION {[1..k -> S] : k \in 0..n}
Modes == {"subnet", "hosts", "pairs", "filexports", "filehosts"}
Specs(m) == {sc \in [mode : {m},
                      file : IF m \in {"subnet", "hosts"} THEN {<<>>} ELSE SeqsUpTo(Line, MaxLines),
                      ports : IF m \in {"pairs", "hosts", "filehosts"} THEN {{}} ELSE (SUBSET Port) \ {{}},
                      excl : SUBSET Addr, cache : SUBSET Addr, gw : BOOLEAN, useFilter : BOOLEAN, useMac : BOOLEAN] :
                 (sc.useFilter \/ sc.excl = {}) /\ (sc.useMac \/ (sc.cache = {} /\ sc.gw))}
All == UNION {Specs(m) : m \in Modes}
ToRec(sc) == [mode |-> sc.mode, file |-> sc.file, ports |-> SetToSeq(sc.ports), excl |-> SetToSeq(sc.excl), cache |-> SetToSeq(sc.cache),
              gw |-> sc.gw, useFilter |-> sc.useFilter, useMac |-> sc.useMac, naddr |-> NAddr]
ASSUME PrintT(<<"scenarios", Cardinality(All)>>)
ASSUME LET S == SetToSeq(All) IN ndJsonSerialize(IOEnv.VF_OUT, [i \in 1..Len(S) |-> ToRec(S[i])])
VARIABLE x
Init == x = 0
Next == UNCHANGED x
=============================================================================
