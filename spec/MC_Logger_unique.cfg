SPECIFICATION Spec
CONSTANTS Id = {1, 2, 3} MaxResults = 5 Unique = TRUE CapU = 1
INVARIANTS InOrder OnlyExpected NoGaps Complete
PROPERTIES Ends
CHECK_DEADLOCK FALSE
