SPECIFICATION Spec
CONSTANTS
  Locked = FALSE
  Copying = FALSE
  PollTimeout = FALSE
  MaxFrames = 3
INVARIANT NoFault
CHECK_DEADLOCK FALSE
