------------------------------ MODULE RangeIter ------------------------------
(* pkg/scan/range.go: newRangeIterator + rangeIterator.Next, small rows (plain ints). *)
EXTENDS Integers, Sequences, FiniteSets, TLC
CONSTANTS Table,      \* sequence of <<P, G, N>> rows, as in cyclicGroups
          MaxN        \* sizes 1..MaxN are explored
RECURSIVE PowMod(_, _, _)
PowMod(b, e, m) == IF e = 0 THEN 1 % m ELSE LET h == PowMod((b * b) % m, e \div 2, m) IN IF e % 2 = 1 THEN (h * b) % m ELSE h
RowFor(n) == LET idx == {i \in 1..Len(Table) : Table[i][1] > n} IN
             IF idx = {} THEN 0 ELSE CHOOSE i \in idx : \A j \in idx : i <= j      \* sort.Search: first P > n
VARIABLES n, P, g, I, startI, stop, pc, out, err
vars == <<n, P, g, I, startI, stop, pc, out, err>>
(* the two rand.Int63()+1 draws only matter through e = N^r1 mod (P-1) and s = r2 mod (P-1); *)
(* r ranges over 1..2^63, so every residue class of the period is reachable                    *)
Init == /\ n \in 0..MaxN /\ pc = "new" /\ P = 0 /\ g = 0 /\ I = 0 /\ startI = 0 /\ stop = FALSE /\ out = <<>> /\ err = FALSE
New == /\ pc = "new"
       /\ IF n <= 0 \/ RowFor(n) = 0
          THEN /\ err' = TRUE /\ pc' = "done" /\ UNCHANGED <<P, g, I, startI>>
          ELSE LET row == Table[RowFor(n)] IN
               \E r1 \in 1..(row[1] - 1), r2 \in 1..(row[1] - 1) :
                  LET e  == PowMod(row[3], r1, row[1] - 1)
                      gg == PowMod(row[2], e, row[1])
                      i0 == PowMod(gg, r2, row[1]) IN
                  /\ P' = row[1] /\ g' = gg /\ I' = i0 /\ startI' = i0 /\ pc' = "seek" /\ err' = FALSE
       /\ UNCHANGED <<n, stop, out>>
\* one multiplication of Next(); used by the constructor ("seek") and by the caller ("next")
Step(after) == /\ I' = (I * g) % P
               /\ IF I' = startI THEN /\ stop' = TRUE /\ pc' = after[1]          \* returned false
                  ELSE IF I' <= n THEN /\ pc' = after[2] /\ UNCHANGED stop       \* returned true
                  ELSE UNCHANGED <<pc, stop>>                                    \* keep looping
Seek == /\ pc = "seek" /\ Step(<<"seekfalse", "seektrue">>) /\ UNCHANGED <<n, P, g, startI, out, err>>
SeekFalse == /\ pc = "seekfalse"
             /\ IF n > 1 THEN err' = TRUE /\ pc' = "done" /\ UNCHANGED startI     \* "invalid cyclic group"
                ELSE startI' = I /\ pc' = "emit" /\ UNCHANGED err
             /\ UNCHANGED <<n, P, g, I, stop, out>>
SeekTrue == /\ pc = "seektrue" /\ startI' = I /\ pc' = "emit" /\ UNCHANGED <<n, P, g, I, stop, out, err>>
Emit == /\ pc = "emit" /\ out' = Append(out, I) /\ pc' = IF stop THEN "done" ELSE "next"    \* caller: use Int(), then Next()
        /\ UNCHANGED <<n, P, g, I, startI, stop, err>>
NextStep == /\ pc = "next" /\ Step(<<"done", "emit">>) /\ UNCHANGED <<n, P, g, startI, out, err>>
Next == New \/ Seek \/ SeekFalse \/ SeekTrue \/ Emit \/ NextStep
Spec == Init /\ [][Next]_vars /\ WF_vars(Next)
Perm == /\ \A i, j \in 1..Len(out) : i # j => out[i] # out[j]
        /\ \A i \in 1..Len(out) : out[i] \in 1..n
        /\ (pc = "done" /\ ~err) => {out[i] : i \in 1..Len(out)} = 1..n
Rejects == (pc = "done" /\ err) <=> (pc = "done" /\ (n <= 0 \/ n >= Table[Len(Table)][1]))
Stops == <>(pc = "done")
(* table facts for small rows, by brute force *)
IsPrime(p) == p > 1 /\ \A d \in 2..(p - 1) : p % d # 0
IsGen(gn, p) == {PowMod(gn, k, p) : k \in 1..(p - 1)} = 1..(p - 1)
Gcd1(a, b) == \A d \in 2..a : ~(a % d = 0 /\ b % d = 0)
ASSUME \A i \in 1..Len(Table) : IsPrime(Table[i][1]) /\ IsGen(Table[i][2], Table[i][1]) /\ Gcd1(Table[i][3], Table[i][1] - 1)
==============================================================================
