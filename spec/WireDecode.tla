------------------------------ MODULE WireDecode ------------------------------
(* Byte-level reference decoder: the header chain a frame contains (C06 necessary condition),   *)
(* reply shape and record of a scan (C03). IPv4 addresses are 4-octet sequences.                 *)
EXTENDS Integers, Sequences, SequencesExt, FiniteSets, TLC
U16(s, i) == s[i] * 256 + s[i + 1]
Pow2(k) == CASE k = 0 -> 1 [] k = 1 -> 2 [] k = 2 -> 4 [] k = 3 -> 8 [] k = 4 -> 16 [] k = 5 -> 32 [] k = 6 -> 64 [] k = 7 -> 128 [] k = 8 -> 256
Cov(len, k) == IF len >= 8 * k THEN 8 ELSE IF len <= 8 * (k - 1) THEN 0 ELSE len - 8 * (k - 1)
InNet(ip, net) == \A k \in 1..4 : (ip[k] \div Pow2(8 - Cov(net.len, k))) = (net.ip[k] \div Pow2(8 - Cov(net.len, k)))
None == [ok |-> FALSE]
\* IPv4 header starting at offset o (1-based) of f: present, IHL>=5 and inside the frame
IPv4At(f, o) ==
  IF Len(f) < o + 19 \/ (f[o] % 16) < 5 \/ Len(f) < o + (f[o] % 16) * 4 - 1 THEN None      \* the version nibble is left open: neither gopacket nor libpcap's `ip` checks it, and the statement does not name it
  ELSE [ok |-> TRUE, at |-> o, hl |-> (f[o] % 16) * 4, ttl |-> f[o + 8], proto |-> f[o + 9],
        frag |-> (U16(f, o + 6) % 16384) # 0,                       \* MF set or fragment offset non-zero
        src |-> SubSeq(f, o + 12, o + 15), dst |-> SubSeq(f, o + 16, o + 19), next |-> o + (f[o] % 16) * 4]
TCPAt(f, o) ==
  IF Len(f) < o + 19 \/ f[o + 12] \div 16 < 5 \/ Len(f) < o + (f[o + 12] \div 16) * 4 - 1 THEN None
  ELSE [ok |-> TRUE, sport |-> U16(f, o), dport |-> U16(f, o + 2), flags9 |-> (f[o + 12] % 2) * 256 + f[o + 13], b13 |-> f[o + 13]]
ICMPAt(f, o) == IF Len(f) < o + 7 THEN None ELSE [ok |-> TRUE, type |-> f[o], code |-> f[o + 1]]
ARPAt(f, o) ==
  IF Len(f) < o + 27 \/ U16(f, o) # 1 \/ U16(f, o + 2) # 2048 \/ f[o + 4] # 6 \/ f[o + 5] # 4 THEN None
  ELSE [ok |-> TRUE, op |-> U16(f, o + 6), sha |-> SubSeq(f, o + 8, o + 13), spa |-> SubSeq(f, o + 14, o + 17)]
L3Off(vpn) == IF vpn THEN 1 ELSE 15
EthOK(vpn, f, et) == vpn \/ (Len(f) >= 14 /\ U16(f, 13) = et)
\* outermost chain: what a reply-shaped frame must look like (C03)
Outer(vpn, f) == IF EthOK(vpn, f, 2048) THEN IPv4At(f, L3Off(vpn)) ELSE None
\* C06: some IPv4 header of the frame (outer, or nested by IP-in-IP) is unfragmented and immediately followed by a complete L4 header
RECURSIVE ChainFrom(_, _, _, _)
ChainFrom(f, o, l4, depth) ==
  LET ip == IPv4At(f, o) IN
  IF ~ip.ok \/ ip.frag THEN {}
  ELSE (IF l4 = "tcp" /\ ip.proto = 6 /\ TCPAt(f, ip.next).ok THEN {[ip |-> ip, l4 |-> TCPAt(f, ip.next)]}
        ELSE IF l4 = "icmp" /\ ip.proto = 1 /\ ICMPAt(f, ip.next).ok THEN {[ip |-> ip, l4 |-> ICMPAt(f, ip.next)]} ELSE {})
       \cup (IF ip.proto = 4 /\ depth < 3 THEN ChainFrom(f, ip.next, l4, depth + 1) ELSE {})
Chains(vpn, f, l4) == IF EthOK(vpn, f, 2048) THEN ChainFrom(f, L3Off(vpn), l4, 0) ELSE {}
FlagLetters(fl) == <<IF (fl \div 2) % 2 = 1 THEN "s" ELSE "", IF (fl \div 16) % 2 = 1 THEN "a" ELSE "", IF fl % 2 = 1 THEN "f" ELSE "",
                     IF (fl \div 4) % 2 = 1 THEN "r" ELSE "", IF (fl \div 8) % 2 = 1 THEN "p" ELSE "", IF (fl \div 32) % 2 = 1 THEN "u" ELSE "",
                     IF (fl \div 64) % 2 = 1 THEN "e" ELSE "", IF (fl \div 128) % 2 = 1 THEN "c" ELSE "", IF (fl \div 256) % 2 = 1 THEN "n" ELSE "">>
\* C03. cfg = [scan, vpn, hasNet, net, ranges]; scans: "tcpsyn" "tcpfin" "tcpnull" "tcpxmas" "tcpflags" "udp" "icmp" "arp"
InRanges(p, rs) == rs = <<>> \/ \E i \in 1..Len(rs) : rs[i].lo <= p /\ p <= rs[i].hi
SrcOK(cfg, a) == ~cfg.hasNet \/ InNet(a, cfg.net)
ReplyShape(cfg, f) ==
  CASE cfg.scan = "arp" -> EthOK(FALSE, f, 2054) /\ ARPAt(f, 15).ok /\ SrcOK(cfg, ARPAt(f, 15).spa)
    [] cfg.scan \in {"udp", "icmp"} ->
         LET ip == Outer(cfg.vpn, f) IN ip.ok /\ ~ip.frag /\ ip.proto = 1 /\ ICMPAt(f, ip.next).ok /\ ICMPAt(f, ip.next).type # 8 /\ SrcOK(cfg, ip.src)
    [] OTHER ->
         LET ip == Outer(cfg.vpn, f) IN ip.ok /\ ~ip.frag /\ ip.proto = 6 /\ TCPAt(f, ip.next).ok /\ SrcOK(cfg, ip.src)
             /\ InRanges(TCPAt(f, ip.next).sport, cfg.ranges) /\ (cfg.scan = "tcpsyn" => TCPAt(f, ip.next).b13 = 18)
RecordOf(cfg, f) ==
  CASE cfg.scan = "arp" -> [ip |-> ARPAt(f, 15).spa, mac |-> ARPAt(f, 15).sha]
    [] cfg.scan \in {"udp", "icmp"} -> LET ip == Outer(cfg.vpn, f) IN [scan |-> cfg.scan, ip |-> ip.src, ttl |-> ip.ttl, type |-> ICMPAt(f, ip.next).type, code |-> ICMPAt(f, ip.next).code]
    [] OTHER -> LET ip == Outer(cfg.vpn, f) t == TCPAt(f, ip.next) IN
                [scan |-> cfg.scan, ip |-> ip.src, port |-> t.sport, flags |-> IF cfg.scan = "tcpsyn" THEN <<>> ELSE SelectSeq(FlagLetters(t.flags9), LAMBDA c : c # "")]
===============================================================================
