-------------------------------- MODULE Iface --------------------------------
(* command/config.go getScanRange / getInterface + pkg/ip: which interface, source address and *)
(* source MAC a packet scan uses, as a relation from host configuration, flags and target.     *)
EXTENDS Integers, Sequences, FiniteSets, TLC
(* abstract networks: A24 is inside A16; B24 is unrelated; V6 stands for any IPv6 prefix *)
Net == {"A24", "A16", "B24", "V6"}
\* where the base address of the target lies
Target == {"inA24", "inA16only", "inB24", "remote", "none"}
Contains(n, t) == \/ (n = "A24" /\ t = "inA24") \/ (n = "A16" /\ t \in {"inA24", "inA16only"}) \/ (n = "B24" /\ t = "inB24")
CONSTANTS MaxIf, MaxAddr, Emit
IfRec == [mac : BOOLEAN, addrs : UNION {[1..k -> Net] : k \in 0..MaxAddr}]
Cfg == [ifs : UNION {[1..k -> IfRec] : k \in 1..MaxIf},
        routes : SUBSET ((1..MaxIf) \X {10, 20}),      \* default routes <<interface, metric>>
        fIface : 0..MaxIf, fSrcIP : BOOLEAN, fSrcV6 : BOOLEAN, fSrcMAC : BOOLEAN, target : Target]      \* fSrcV6: the value of --srcip is an IPv6 address
WellFormed(c) == /\ \A r \in c.routes : r[1] <= Len(c.ifs)
                 /\ (c.fSrcV6 => c.fSrcIP)
                 /\ c.fIface <= Len(c.ifs)
                 /\ \A r1, r2 \in c.routes : r1[2] = r2[2] => r1 = r2          \* distinct metrics: the choice is defined
\* first address of interface i on a network containing the target (0 if none)
AttachIdx(c, i) == LET S == {k \in 1..Len(c.ifs[i].addrs) : Contains(c.ifs[i].addrs[k], c.target)} IN
                   IF S = {} THEN 0 ELSE CHOOSE k \in S : \A j \in S : k <= j
Attached(c) == {i \in 1..Len(c.ifs) : AttachIdx(c, i) # 0}
\* outcome: [err] or [iface, src = <<iface, addrIdx>> or <<0,0>> for --srcip, mac = "iface"|"flag"|"none", vpn]
Pick(c) ==        \* set of allowed <<interface, address index (0 = none)>> choices
  IF c.target # "none" /\ c.fIface = 0 /\ Attached(c) # {} THEN {<<i, AttachIdx(c, i)>> : i \in Attached(c)}   \* any attached interface
  ELSE IF c.target # "none" /\ c.fIface # 0 /\ AttachIdx(c, c.fIface) # 0 THEN {<<c.fIface, AttachIdx(c, c.fIface)>>}
  ELSE IF c.fIface # 0 THEN {<<c.fIface, IF Len(c.ifs[c.fIface].addrs) > 0 THEN 1 ELSE 0>>}
  ELSE IF c.routes = {} THEN {<<0, 0>>}
  ELSE LET r == CHOOSE r \in c.routes : \A q \in c.routes : r[2] <= q[2] IN {<<r[1], IF Len(c.ifs[r[1]].addrs) > 0 THEN 1 ELSE 0>>}
Outcomes(c) == {LET i == p[1] k == p[2] IN
   IF i = 0 THEN [err |-> "no interface"]
   ELSE IF ~c.fSrcIP /\ (k = 0 \/ c.ifs[i].addrs[k] = "V6") THEN [err |-> "no IPv4 source"]      \* as repaired (§6 row 11)
   ELSE IF c.fSrcIP /\ c.fSrcV6 THEN [err |-> "no IPv4 source"]                                  \* an IPv6 --srcip is not a usable source
   ELSE [err |-> "none", iface |-> i, src |-> IF c.fSrcIP THEN <<0, 0>> ELSE <<i, k>>,
         mac |-> IF c.fSrcMAC THEN "flag" ELSE IF c.ifs[i].mac THEN "iface" ELSE "none",
         vpn |-> ~c.fSrcMAC /\ ~c.ifs[i].mac] : p \in Pick(c)}
Configs == {c \in Cfg : WellFormed(c)}
(* C17 as statements about the relation *)
AttachedWins == \A c \in Configs : (c.target # "none" /\ c.fIface = 0 /\ Attached(c) # {}) =>
                   \A o \in Outcomes(c) : o.err = "none" => o.iface \in Attached(c) /\ (~c.fSrcIP => Contains(c.ifs[o.iface].addrs[o.src[2]], c.target))
OverridesWin == \A c \in Configs : \A o \in Outcomes(c) : o.err = "none" =>
                   /\ (c.fIface # 0 => o.iface = c.fIface) /\ (c.fSrcIP => o.src = <<0, 0>>) /\ (c.fSrcMAC => o.mac = "flag")
VpnIffNoMac == \A c \in Configs : \A o \in Outcomes(c) : o.err = "none" => (o.vpn <=> o.mac = "none")
NeverEmptySource == \A c \in Configs : \A o \in Outcomes(c) : o.err = "none" => (o.src = <<0, 0>> \/ c.ifs[o.src[1]].addrs[o.src[2]] # "V6")


==============================================================================
