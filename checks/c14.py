"""C14 — JSON output: one complete, faithful JSON object per result, in order.
Spec: Logger.tla (LogResults with and without the unique filter; TLC exhaustive over result histories), LoggerTrace.tla (the real logger and
result types: every Write call decoded by an independent strict decoder and compared, in canonical form, with what was put in)."""
import json
import os
import vf
from checks import wire_tier as wt

LEVEL = "model_checking"
LEVEL_TEXT = ("TLC checks Logger for every result history over 3 identities up to length 5, plain and unique, cancel anywhere: InOrder, OnlyExpected (faithful, "
              "first sighting only), NoGaps, Complete, Ends. The real NewLogger(JSON()) / NewUniqueLogger run with the real result types (easyjson arp / tcp / "
              "icmp encoders, reflective socks / elastic / docker) over values with quotes, backslashes, controls, DEL, <>&, U+2028/9, multi-byte, invalid "
              "UTF-8, '%' verbs, 400 kB strings and nested server maps; every Write call must be exactly one line that an independent strict RFC 8259 "
              "decoder accepts, and TLC compares its canonical form with that of the fields put in, in order, with de-duplication by identity, with "
              "stalled and slow writers, small channel capacities and cancellation. The encoding half is exploration with TLC as the comparator.")
NOTE = ("Trusted: TLC; the hand-written strict JSON decoder and the canonicaliser of the harness (applied identically to both sides); a string's abstract value "
        "is its []rune view (each invalid byte one U+FFFD), strings over 1500 code points are compared by length, rolling sum and both ends; docker's "
        "library-typed info / version objects are only checked for presence.")
TECHNIQUE = "TLA+ model checking (TLC) of ordering/de-duplication + trace validation of the real logger with decode-and-compare in TLC"
DESIGN_REF = "DESIGN.md section 5, C14"


def run(ctx):
    if ctx.replay:
        return vf.replay_trace(ctx, ctx.replay)
    quick = ctx.tier == "quick"
    ctx.cov["rule"] = ("model: all result sequences over 3 ids up to length 5; runs: seeded random result sequences (1..60 results, 1..40 hosts, 6 result types, "
                       "nasty string pool, nested maps), plain / unique, channel capacity 0/1/2/1000, slow / stalled writer, cancel; distinct = runs")
    ctx.tlc_mc("Logger", "MC_Logger_plain", workers=8, timeout=600)
    ctx.tlc_mc("Logger", "MC_Logger_unique", workers=8, timeout=600)
    binary = ctx.go_build_test("./command/log")
    procs = 8
    envs = [{"VF_OUT": os.path.join(ctx.scratch, "c14-%d.ndjson" % k), "VF_RUNS": 24 if quick else 400, "VERIF_SEED": ctx.seed * 100 + k,
             "VF_VOLUME": 2 if (quick and k == 0) or (not quick and k < 4) else 0} for k in range(procs)]
    res = vf.go_run_many(ctx, binary, "^TestVfLogger$", envs, timeout=2400)
    events = []
    for (rc, out), e in zip(res, envs):
        if os.path.exists(e["VF_OUT"]):
            events += vf.read_ndjson(e["VF_OUT"])
        ce = vf.crash_events(ctx, rc, out, "logger")
        if ce:
            events += [dict(ce[0], unique=False), ce[1]]
    trace = os.path.join(ctx.scratch, "c14-all.ndjson")
    vf.write_ndjson(trace, events)
    # binding self-test: one code point of one decoded line changed must be rejected
    runs = vf.split_runs(events)
    probe = next((r for r in runs if any(e["ev"] == "Write" and len(e["c"]) > 8 for e in r) and not any(e["ev"] == "Cancel" for e in r)), None)
    if probe is not None:
        bad = json.loads(json.dumps(probe))
        w = next(e for e in bad if e["ev"] == "Write" and len(e["c"]) > 8)
        w["c"][-1] += 1
        p = os.path.join(ctx.scratch, "c14-selftest.ndjson")
        vf.write_ndjson(p, bad)
        ok, _ = ctx.tlc_trace("LoggerTrace", p)
        if ok:
            raise vf.Inconclusive("binding self-test failed: LoggerTrace accepted a corrupted line")
        ctx.step("selftest", corrupted="last code point of one decoded line", rejected=True)
    n, _ = vf.validate_runs(ctx, "LoggerTrace", trace, keyfn=lambda run, evt: "logger:%s:%s" % (evt.get("ev"), evt.get("what", "")), label="logger")
    ctx.count(0, [("run", i) for i in range(n)])
    # socket-level tier: live ARP with the unique logger on the wire: a host that answers in every pass is printed once
    n3, rej = wt.run_wire(ctx, select=lambda s: s["name"].startswith("arp-live"), label="c14w", focus="live")
    wt.report(ctx, "C14", rej)
    # ... and a record far larger than a pipe buffer behind a slow reader of standard output: complete when the process has exited
    n4, rej = wt.run_wire(ctx, select=lambda s: s["name"] in ("elastic-slow-stdout", "elastic-parallel", "docker-parallel"), label="c14s", focus="all")
    wt.report(ctx, "C14", rej)
    for r0 in runs[:2]:
        ctx.sample([{k: (v if k != "c" else v[:30]) for k, v in e.items()} for e in r0[:12]])
