INIT Init
NEXT Next
CONSTANTS MaxIf = 2 MaxAddr = 1 Emit = FALSE
