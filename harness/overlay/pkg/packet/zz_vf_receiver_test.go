//go:build verif

package packet

// C20 harness: the real packet.NewReceiver against a scripted Reader, a recording
// Processor and an error consumer. It only drives and records; the verdict is
// TLC's (ReceiverTrace.tla).

import (
	"context"
	"encoding/binary"
	"encoding/json"
	"errors"
	"fmt"
	"io"
	"math/rand"
	"net"
	"os"
	"strconv"
	"syscall"
	"testing"
	"time"

	"github.com/google/gopacket"
)

type vfScenario struct {
	Script   []string `json:"script"`
	CancelAt int      `json:"cancelAt"` // cancel from inside the k-th read (0: never)
	// free-running options (random scenarios)
	SlowConsumerUS int `json:"slowConsumerUs"`
	CancelAfterUS  int `json:"cancelAfterUs"` // cancel from outside after this long (0: never)
}

// vfIdxErr carries the script position so that a reported error identifies its cause.
type vfIdxErr struct {
	i       int
	class   string
	timeout bool
	wrap    error
}

func (e *vfIdxErr) Error() string {
	if e.class == "closed" {
		return fmt.Sprintf("read vf%d: use of closed file", e.i)
	}
	return fmt.Sprintf("vf-%s-%d", e.class, e.i)
}
func (e *vfIdxErr) Timeout() bool   { return e.timeout }
func (e *vfIdxErr) Temporary() bool { return e.timeout }
func (e *vfIdxErr) Unwrap() error   { return e.wrap }

var _ net.Error = (*vfIdxErr)(nil)

type vfReader struct {
	sink   *vfSink
	sc     *vfScenario
	pos    int
	cancel context.CancelFunc
	rnd    *rand.Rand
}

func (r *vfReader) ReadPacketData() ([]byte, *gopacket.CaptureInfo, error) {
	r.pos++
	i := r.pos
	o := "closed"
	if i <= len(r.sc.Script) {
		o = r.sc.Script[i-1]
	}
	r.sink.mu.Lock()
	if r.sc.CancelAt == i {
		// cancel from inside the k-th read: logged and issued under the log lock, so everything
		// logged before happened before the cancellation and everything after happened after it
		r.sink.logLocked(map[string]interface{}{"ev": "Cancel"})
		r.cancel()
	}
	r.sink.logLocked(map[string]interface{}{"ev": "Read", "i": i, "o": o})
	r.sink.mu.Unlock()
	switch o {
	case "frame", "frameProcErr":
		data := make([]byte, 8)
		binary.BigEndian.PutUint32(data, uint32(i))
		if o == "frameProcErr" {
			data[4] = 1
		}
		return data, &gopacket.CaptureInfo{}, nil
	case "eagain":
		switch r.rnd.Intn(3) {
		case 0:
			return nil, nil, syscall.EAGAIN
		case 1:
			return nil, nil, os.NewSyscallError("recvfrom", syscall.EAGAIN)
		default:
			return nil, nil, &vfIdxErr{i: i, class: "eagain", wrap: syscall.EAGAIN}
		}
	case "timeout":
		return nil, nil, &vfIdxErr{i: i, class: "timeout", timeout: true}
	case "connreset":
		switch r.rnd.Intn(3) {
		case 0:
			return nil, nil, syscall.ECONNRESET
		case 1:
			return nil, nil, &net.OpError{Op: "read", Net: "packet", Err: os.NewSyscallError("read", syscall.ECONNRESET)}
		default:
			return nil, nil, &vfIdxErr{i: i, class: "connreset", wrap: syscall.ECONNRESET}
		}
	case "unknown":
		return nil, nil, &vfIdxErr{i: i, class: "unknown"}
	case "eof":
		switch r.rnd.Intn(6) {
		case 0:
			return nil, nil, io.EOF
		case 1:
			return nil, nil, io.ErrUnexpectedEOF
		case 2:
			return nil, nil, io.ErrNoProgress
		case 3:
			return nil, nil, io.ErrClosedPipe
		case 4:
			return nil, nil, io.ErrShortBuffer
		default:
			return nil, nil, syscall.EBADF
		}
	default: // closed
		return nil, nil, &vfIdxErr{i: i, class: "closed"}
	}
}

type vfProcessor struct{ sink *vfSink }

func (p *vfProcessor) ProcessPacketData(data []byte, _ *gopacket.CaptureInfo) error {
	i := int(binary.BigEndian.Uint32(data))
	p.sink.log(map[string]interface{}{"ev": "Proc", "i": i})
	if data[4] == 1 {
		return &vfIdxErr{i: i, class: "proc"}
	}
	return nil
}

func vfErrIndex(err error) int {
	var ie *vfIdxErr
	if errors.As(err, &ie) && (ie.class == "unknown" || ie.class == "proc") {
		return ie.i
	}
	// an error the receiver must never report (transient, fatal, or foreign): position 0 matches no action
	return 0
}

// vfRunReceiver executes one scenario on the real receiver and returns its events.
func vfRunReceiver(sc *vfScenario, seed int64) []map[string]interface{} {
	sink := &vfSink{}
	script := sc.Script
	if script == nil {
		script = []string{}
	}
	sink.log(map[string]interface{}{"ev": "Reset", "script": script})
	ctx, cancel := context.WithCancel(context.Background())
	defer cancel()
	rd := &vfReader{sink: sink, sc: sc, cancel: cancel, rnd: rand.New(rand.NewSource(seed))}
	rcv := NewReceiver(rd, &vfProcessor{sink: sink})
	errc := rcv.ReceivePackets(ctx)

	if sc.CancelAfterUS > 0 {
		go func() {
			time.Sleep(time.Duration(sc.CancelAfterUS) * time.Microsecond)
			sink.mu.Lock()
			if !sink.sealed {
				sink.logLocked(map[string]interface{}{"ev": "Cancel"})
				cancel()
			}
			sink.mu.Unlock()
		}()
	}
	// the consumer: bounded wait for the stream to end; a receiver that neither delivers nor
	// closes for 10 s (typical: microseconds; an unknown failure sleeps 5 ms) is a hang
	idle := time.NewTimer(10 * time.Second)
	defer idle.Stop()
	for {
		if sc.SlowConsumerUS > 0 {
			time.Sleep(time.Duration(sc.SlowConsumerUS) * time.Microsecond)
		}
		select {
		case err, ok := <-errc:
			if !ok {
				sink.log(map[string]interface{}{"ev": "Closed"})
				return sink.seal()
			}
			sink.log(map[string]interface{}{"ev": "ErrSeen", "i": vfErrIndex(err), "text": err.Error()})
			if !idle.Stop() {
				select {
				case <-idle.C:
				default:
				}
			}
			idle.Reset(10 * time.Second)
		case <-idle.C:
			sink.log(map[string]interface{}{"ev": "Hang"})
			cancel()
			return sink.seal()
		}
	}
}

func TestVfReceiver(t *testing.T) {
	out := vfOpenOut(t, "VF_OUT")
	defer out.close()
	seed, _ := strconv.ParseInt(os.Getenv("VERIF_SEED"), 10, 64)
	runs := 0
	if p := os.Getenv("VF_SCENARIOS"); p != "" {
		vfReadNDJSON(t, p, func(raw json.RawMessage) {
			var sc vfScenario
			if err := json.Unmarshal(raw, &sc); err != nil {
				t.Fatal(err)
			}
			out.write(vfRunReceiver(&sc, seed+int64(runs)))
			runs++
		})
	}
	// seeded random long scripts: bursts of > 100 unknown / processing errors against a slow
	// consumer (the 100-slot error buffer fills), cancellation from outside at a random moment
	nrand, _ := strconv.Atoi(os.Getenv("VF_RANDOM"))
	rnd := rand.New(rand.NewSource(seed*7919 + 17))
	// a long silence: hundreds / thousands of transient failures in a row (an idle socket polls every 100 ms: 10 s are 100 of them),
	// then frames - every one of them is still processed, nothing is reported meanwhile
	silences := []int{99, 100, 101, 128, 256, 1000}
	if os.Getenv("VERIF_TIER") == "thorough" {
		silences = append(silences, 5000, 20000)
	}
	for _, n := range silences {
		for _, kinds := range [][]string{{"eagain"}, {"timeout"}, {"connreset"}, {"eagain", "timeout", "connreset"}} {
			sc := &vfScenario{}
			for j := 0; j < n; j++ {
				sc.Script = append(sc.Script, kinds[j%len(kinds)])
			}
			sc.Script = append(sc.Script, "frame", "frameProcErr")
			for j := 0; j < n; j++ {
				sc.Script = append(sc.Script, kinds[(j+1)%len(kinds)])
			}
			sc.Script = append(sc.Script, "frame", "eof")
			out.write(vfRunReceiver(sc, seed+int64(runs)))
			runs++
		}
	}
	classes := []string{"frame", "frameProcErr", "eagain", "timeout", "connreset", "unknown"}
	for k := 0; k < nrand; k++ {
		n := 1 + rnd.Intn(400)
		sc := &vfScenario{}
		mode := rnd.Intn(4)
		for j := 0; j < n; j++ {
			var o string
			switch mode {
			case 0: // mostly processing errors
				o = []string{"frameProcErr", "frameProcErr", "frameProcErr", "frame", "eagain"}[rnd.Intn(5)]
			case 1: // uniform without unknown (unknown costs 5 ms each)
				o = classes[rnd.Intn(5)]
			case 2: // idle socket: transient failures only, a few frames
				o = []string{"eagain", "timeout", "connreset", "eagain", "timeout", "frame"}[rnd.Intn(6)]
			default:
				o = classes[rnd.Intn(6)]
				if o == "unknown" && rnd.Intn(3) != 0 {
					o = "frameProcErr"
				}
			}
			sc.Script = append(sc.Script, o)
		}
		if rnd.Intn(3) == 0 {
			sc.Script = append(sc.Script, []string{"eof", "closed"}[rnd.Intn(2)])
			sc.Script = append(sc.Script, "frame", "unknown")
		}
		switch rnd.Intn(4) {
		case 0:
			sc.SlowConsumerUS = 50 + rnd.Intn(300)
		case 1:
			sc.CancelAt = 1 + rnd.Intn(n+1)
			sc.SlowConsumerUS = rnd.Intn(2) * (20 + rnd.Intn(200))
		case 2:
			sc.CancelAfterUS = 1 + rnd.Intn(3000)
			sc.SlowConsumerUS = rnd.Intn(2) * (20 + rnd.Intn(200))
		}
		out.write(vfRunReceiver(sc, seed+int64(runs)))
		runs++
	}
	t.Logf("VF_RUNS=%d VF_EVENTS=%d", runs, out.n)
	fmt.Printf("VF_RUNS=%d VF_EVENTS=%d\n", runs, out.n)
}
