"""C12 — cancellation at any moment ends the scan cleanly and promptly.
Spec: PacketScan.tla / AppScan.tla / Receiver.tla with the always-enabled Cancel action (TLC exhaustive: NoPanic, CancelEnds),
PacketScanObsTrace / AppScanObsTrace for cancel-point replay on the real code."""
import os
import vf
from checks import c07, c08, c16
from checks import wire_tier as wt

LEVEL = "model_checking"
LEVEL_TEXT = ("TLC checks the goroutine-level models of the packet pipeline, the application engine + runner and the receiver with an "
              "always-enabled Cancel action: no send on / close of a closed channel (NoPanic), the scan call returns and its streams end "
              "(liveness under weak fairness), for every interleaving and every cancel point of small instances. On the real code the "
              "cancel is issued, under the log lock, by the seam wrapper handling the k-th event - for every k of small runs and sampled "
              "k of large runs with full buffers and slow consumers - for the packet engine and for startScanEngine around the real "
              "application engine; each trace must be a behaviour of the seam-level specifications, the scan call must return and the "
              "error stream must close within 10 s, and every output write must be a complete line. Schedules of the goroutine-level packet model "
              "simulated by TLC are stepped through the real generator / merger / sender goroutines by a gate director (hooks under build tag "
              "verif) with the cancellation placed before every single step; each step must be an action of the model. The chunk loop with Ctrl-C (ScanRun; "
              "the as-found variant that starts further passes after the cancellation must fail) is model checked and the runs of the real "
              "binary that receive SIGINT (mid-scan, in the exit delay, in a 31-pass scan, on a busy wire, with application probes in flight) "
              "are validated against it / against the exit bound; no scenario of the socket-level tier may crash.")
NOTE = ("Trusted: TLC; the seam wrappers; the bounded-time clauses use 10 s (typical < 50 ms). Goroutines leaked after a cancel (sender parked "
        "on its unconditional error send) are allowed by the specification, as the statement only asks the scan call to return.")
TECHNIQUE = "TLA+ model checking (TLC) with Cancel action + cancel-point replay (seam wrappers, and gate-driven replay of TLC-simulated schedules) on the real code validated against the spec"
DESIGN_REF = "DESIGN.md section 5, C12"


def run(ctx):
    if ctx.replay:
        return vf.replay_trace(ctx, ctx.replay)
    quick = ctx.tier == "quick"
    ctx.cov["rule"] = ("model: cancel enabled in every state; runs: cancel at the k-th seam event for every k of runs with 3/6/8 requests "
                       "(packet) and 3/5/9 requests (application), plus sampled cancel points in runs of 150..1800 requests; distinct = runs")
    ctx.tlc_mc("PacketScan", "MC_PacketScan_R2W2c", workers=16, timeout=900)
    ctx.tlc_mc("AppScan", "MC_AppScan_R2W2c", workers=8, timeout=600)
    ctx.tlc_mc("ErrMerge", "MC_ErrMerge", workers=4, timeout=600)
    ctx.tlc_mc("ErrMerge", "MC_ErrMerge_bug", workers=4, timeout=600, expect_violation="NoPanic")
    if not quick:
        ctx.tlc_mc("PacketScan", "MC_PacketScan_R3W2c", workers=16, timeout=3000, xmx="24g")
        ctx.tlc_mc("AppScan", "MC_AppScan_R3W2c", workers=16, timeout=3000, xmx="16g")
    t1 = c07.pipeline_traces(ctx, free=0, big=0, cancel=2 if quick else 12, procs=4 if quick else 8, label="c12p")
    n1, _ = vf.validate_runs(ctx, "PacketScanObsTrace", t1, keyfn=c07.keyfn, label="packet engine cancel points", timeout=3000)
    t2 = c08.app_traces(ctx, free=0, big=0, cancel=2 if quick else 10, procs=4 if quick else 8, label="c12a")
    n2, _ = vf.validate_runs(ctx, "AppScanObsTrace", t2, keyfn=c08.keyfn, label="application scan cancel points", timeout=3000)
    # the packet engine under the real startScanEngine: Ctrl-C at every k of small runs, and with every buffer full
    ta, tb = c16.pkt_traces(ctx, 0, 1 if quick else 6, 4 if quick else 8, "c12r")
    n3, _ = vf.validate_runs(ctx, "PacketScanObsTrace", ta, keyfn=c07.keyfn, label="packet engine under startScanEngine, cancel points", timeout=3000)
    vf.validate_runs(ctx, "RunnerTrace", tb, keyfn=c16.keyfn, label="runner timing under cancel")
    # a cancellation before every single step of TLC-simulated schedules of PacketScan, stepped through the real generator /
    # merger / sender goroutines by the gate director: a crash (send on a closed channel, double close) ends the harness process
    from checks import gate_common
    n5, _ = gate_common.gate_replay(ctx, [(3, 2, 60, 30), (2, 1, 0, 20)] if quick else [(3, 2, 1000, 400), (4, 3, 400, 200), (2, 1, 100, 100), (5, 2, 0, 200)],
                                    cancel_every=1, label="c12g")
    ctx.count(0, [("run", i) for i in range(n1 + n2 + n3 + n5)])
    # socket-level tier: SIGINT to the real binary mid-scan and during the exit delay; no run of any scenario may crash or hang
    # the chunk loop under Ctrl-C: no pass is started after the cancellation (as found - finding F18 - the model variant fails)
    ctx.tlc_mc("MC_ScanRun", "MC_ScanRun", workers=8, timeout=900)
    ctx.tlc_mc("MC_ScanRun", "MC_ScanRun_passAfterCancel", workers=2, timeout=300, expect_violation="NoPassAfterCancel")
    # closing the packet source of a finished pass while its receiver is inside a read (finding F17): the repair needs the lock, the copy
    # and the poll timeout - each variant without one of them fails its property
    ctx.tlc_mc("SourceLifetime", "MC_SourceLifetime_fixed", workers=2, timeout=300)
    ctx.tlc_mc("SourceLifetime", "MC_SourceLifetime_asfound", workers=2, timeout=300, expect_violation="NoFault")
    ctx.tlc_mc("SourceLifetime", "MC_SourceLifetime_zerocopy", workers=2, timeout=300, expect_violation="NoFault")
    ctx.tlc_mc("SourceLifetime", "MC_SourceLifetime_nopolltimeout", workers=2, timeout=300, expect_violation="CloseTerminates")
    if not quick:
        # unbounded version of NoFault for the repaired source (any number of frames): an inductive invariant discharged by Apalache
        import shutil
        import subprocess
        if shutil.which("apalache-mc"):
            d = os.path.join(ctx.scratch, "apalache")
            os.makedirs(d, exist_ok=True)
            shutil.copy(os.path.join(vf.VERIF, "spec", "SourceLifetimeInd.tla"), d)
            for args in (["--init=Init", "--inv=IndInv", "--length=0"], ["--init=IndInit", "--inv=IndInv", "--length=1"]):
                p = subprocess.run(["apalache-mc", "check"] + args + ["SourceLifetimeInd.tla"], cwd=d, stdout=subprocess.PIPE, stderr=subprocess.STDOUT, text=True, timeout=900)
                if "The outcome is: NoError" not in p.stdout:
                    raise vf.Inconclusive("Apalache did not discharge the inductive invariant of SourceLifetimeInd (%s):\n%s" % (" ".join(args), p.stdout[-2000:]))
            ctx.step("apalache", module="SourceLifetimeInd", inductive_invariant="IndInv", implies="NoFault", outcome="NoError")
        else:
            ctx.notes.append("apalache-mc not found: the inductive-invariant step for SourceLifetimeInd was skipped")
    n4, rej = wt.run_wire(ctx, label="c12w", focus="clean")
    wt.report(ctx, "C12", rej)
    # runs with a Ctrl-C as event sequences against ScanRun: Sigint -> no further pass, at most the probes in flight, exit within the bound
    ctx.wire_events = [e for e in getattr(ctx, "wire_events", []) if e["expect"]["kind"] == "packetsigint"]
    wt.scanrun_validate(ctx, "C12", "c12s")
    for t in (t1, t2):
        for r0 in vf.split_runs(vf.read_ndjson(t))[1:3]:
            ctx.sample(r0[:40])
    ctx.assumptions += ["bounded time = 10 s for the scan call to return / the error stream to close after cancel",
                        "leaked goroutines after cancel are not a violation"]
