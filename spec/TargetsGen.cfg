INIT Init
NEXT Next
