SPECIFICATION Spec
CONSTANTS
  Variant = "asbuilt"
  AttachAtomic = FALSE
INVARIANT NoForeign
CHECK_DEADLOCK FALSE
