----------------------------- MODULE OptionsTrace -----------------------------
(* C18 binding: what the real parsers did with each input must conform to the reference semantics of Options. *)
EXTENDS Options, Json, IOUtils
Trace == ndJsonDeserialize(IOEnv.VERIF_TRACE)
VARIABLE l
Init == l = 1
Next == l <= Len(Trace) /\ Conforms(Trace[l]) /\ l' = l + 1
TSpec == Init /\ [][Next]_l
HighWater == TLCSet(1, IF l > TLCGet(1) THEN l ELSE TLCGet(1))
ASSUME TLCSet(1, 0)
TraceAccepted == IF TLCGet(1) = Len(Trace) + 1 THEN PrintT(<<"TRACE ACCEPTED", Len(Trace)>>)
                 ELSE Print(<<"REJECTED at event", TLCGet(1), [which |-> Trace[TLCGet(1)].which, s |-> Trace[TLCGet(1)].s, outcome |-> Trace[TLCGet(1)].outcome]>>, FALSE)
==============================================================================
