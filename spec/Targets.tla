------------------------------- MODULE Targets -------------------------------
(* Request generation: pkg/scan/request.go generators (ipGenerator, portGenerator,          *)
(* ipPortGenerator, ipRequestGenerator, fileIPPortGenerator, fileIPGenerator,               *)
(* filterIPRequestGenerator) + arp/cache.go cacheReqGenerator, selected the way             *)
(* command/config.go newIPPortGenerator and command/tcp.go|udp.go|icmp.go do it.            *)
(* Each stage is a FIFO goroutine applying a per-item function, so the output stream is     *)
(* determined up to (a) the pseudo-random iteration order of addresses and ports and        *)
(* (b) whether processing stops or continues after a bad line (the statement of C13 allows  *)
(* both).  One run = one pass.                                                              *)
EXTENDS Integers, Sequences, FiniteSets, TLC
CONSTANTS Addr, Port, MaxLines,
          Fixed          \* TRUE: the semantics the properties ask for; FALSE: the code as found (defects 4-6 of DESIGN section 6),
                         \*        kept as a regression model that must FAIL BadEntryOneError / NoBorrowedAddress
Kinds == {"valid", "badjson", "badip", "noip", "badport", "noport", "toolong"}
Line  == [kind : Kinds, ip : Addr, port : Port]
Cause(k) == CASE k = "badjson" -> "json" [] k \in {"badip", "noip"} -> "ip" [] k \in {"badport", "noport"} -> "port" [] k = "toolong" -> "toolong"
                 [] OTHER -> "none"
VARIABLES mode,        \* "subnet": target subnet x port ranges; "hosts": subnet, no ports (arp, icmp); "pairs": file of ip/port pairs;
                       \* "filexports": file of addresses x port ranges; "filehosts": file of addresses, no ports (icmp -f)
          file, ports, excl, cache, gw, useFilter, useMac,     \* the target specification
          pc, portsLeft, cur, pos, ipsLeft, prevIP, out
vars == <<mode, file, ports, excl, cache, gw, useFilter, useMac, pc, portsLeft, cur, pos, ipsLeft, prevIP, out>>
SeqsUpTo(S, n) == UNION {[1..k -> S] : k \in 0..n}
\* a target specification (scenario)
WellFormedSpec == /\ mode \in {"subnet", "hosts", "pairs", "filexports", "filehosts"}
                  /\ file \in (IF mode \in {"subnet", "hosts"} THEN {<<>>} ELSE SeqsUpTo(Line, MaxLines))
                  /\ ports \in (IF mode \in {"pairs", "hosts", "filehosts"} THEN {{}} ELSE (SUBSET Port) \ {{}})
                  /\ excl \in SUBSET Addr /\ cache \in SUBSET Addr /\ gw \in BOOLEAN
                  /\ useFilter \in BOOLEAN /\ useMac \in BOOLEAN
                  /\ (useFilter \/ excl = {}) /\ (useMac \/ (cache = {} /\ gw))
StartRun == pc = "start" /\ portsLeft = ports /\ cur = 0 /\ pos = 1 /\ ipsLeft = {} /\ prevIP = 0 /\ out = <<>>
Init == WellFormedSpec /\ StartRun
(* ---- the optional stages, applied to one item ---- *)
Req(ip, p, ln) == [k |-> "req", ip |-> ip, port |-> p, line |-> ln, cause |-> "none", mac |-> "none"]
Err(c, ln, p)  == [k |-> "err", ip |-> 0, port |-> p, line |-> ln, cause |-> c, mac |-> "none"]
Filter(it) == IF ~useFilter THEN <<it>>
              ELSE IF it.k = "err" THEN (IF Fixed THEN <<it>> ELSE <<[it EXCEPT !.cause = "filter"]>>)   \* as found: Contains(nil) error replaces the cause
              ELSE IF it.ip \in excl THEN <<>> ELSE <<it>>
Resolve(it) == IF ~useMac THEN it
               ELSE IF it.k = "err" /\ Fixed THEN it
               ELSE IF it.k = "req" /\ it.ip \in cache THEN [it EXCEPT !.mac = "own"]
               ELSE IF gw THEN [it EXCEPT !.mac = IF it.k = "req" THEN "gw" ELSE "none"]
               ELSE [it EXCEPT !.k = "err", !.cause = "nomac", !.ip = 0]           \* as found this also overwrites an existing error
Stages(it) == LET f == Filter(it) IN IF f = <<>> THEN <<>> ELSE <<Resolve(f[1])>>
Push(it) == out \o Stages(it)
(* ---- sources ---- *)
Start == /\ pc = "start"
         /\ pc' = CASE mode = "subnet" -> "port" [] mode = "hosts" -> "ip" [] mode = "pairs" -> "line" [] mode = "filexports" -> "port" [] mode = "filehosts" -> "fline"
         /\ ipsLeft' = IF mode = "hosts" THEN Addr ELSE ipsLeft
         /\ UNCHANGED <<mode, file, ports, excl, cache, gw, useFilter, useMac, portsLeft, cur, pos, prevIP, out>>
\* portGenerator: every port of every range once, in pseudo-random order
NextPort(p) == /\ pc = "port" /\ p \in portsLeft
               /\ portsLeft' = portsLeft \ {p} /\ cur' = p
               /\ pos' = 1 /\ prevIP' = 0 /\ ipsLeft' = Addr                              \* a fresh address pass per port
               /\ pc' = IF mode = "subnet" THEN "ip" ELSE "fline"
               /\ UNCHANGED <<mode, file, ports, excl, cache, gw, useFilter, useMac, out>>
PortsDone == /\ pc = "port" /\ portsLeft = {} /\ pc' = "done"
             /\ UNCHANGED <<mode, file, ports, excl, cache, gw, useFilter, useMac, portsLeft, cur, pos, ipsLeft, prevIP, out>>
\* ipGenerator: every address of the subnet once, in pseudo-random order
EmitIP(a) == /\ pc = "ip" /\ a \in ipsLeft
             /\ ipsLeft' = ipsLeft \ {a} /\ out' = Push(Req(a, cur, 0))
             /\ UNCHANGED <<mode, file, ports, excl, cache, gw, useFilter, useMac, pc, portsLeft, cur, pos, prevIP>>
IPsDone == /\ pc = "ip" /\ ipsLeft = {} /\ pc' = IF mode = "hosts" THEN "done" ELSE "port"
           /\ UNCHANGED <<mode, file, ports, excl, cache, gw, useFilter, useMac, portsLeft, cur, pos, ipsLeft, prevIP, out>>
\* fileIPPortGenerator: one request per line. After a bad line processing may stop or continue (both allowed by C13);
\* the code as found stops after invalid JSON / an over-long line and continues after a bad address or port.
PairLine == /\ pc = "line" /\ pos <= Len(file)
            /\ LET ln == file[pos] IN
               /\ pos' = pos + 1
               /\ out' = Push(IF ln.kind = "valid" THEN Req(ln.ip, ln.port, pos) ELSE Err(Cause(ln.kind), pos, 0))
               /\ pc' \in (IF ln.kind = "valid" THEN {"line"} ELSE {"line", "done"})
            /\ UNCHANGED <<mode, file, ports, excl, cache, gw, useFilter, useMac, portsLeft, cur, ipsLeft, prevIP>>
PairEnd == /\ pc = "line" /\ pos > Len(file) /\ pc' = "done"
           /\ UNCHANGED <<mode, file, ports, excl, cache, gw, useFilter, useMac, portsLeft, cur, pos, ipsLeft, prevIP, out>>
\* fileIPGenerator under ipPortGenerator: per port a pass over the file; the port field of a line is ignored.
\* As found, `entry` is not reset between lines, so a line without "ip" repeats the previous line's address.
HasIP(ln) == ln.kind \in {"valid", "badport", "noport"}
FileLine == /\ pc = "fline" /\ pos <= Len(file)
            /\ LET ln == file[pos]
                   stale == ln.kind = "noip" /\ ~Fixed /\ prevIP # 0 IN
               /\ pos' = pos + 1
               /\ IF HasIP(ln) \/ stale
                  THEN /\ out' = Push(Req(IF HasIP(ln) THEN ln.ip ELSE prevIP, cur, pos))
                       /\ prevIP' = (IF HasIP(ln) THEN ln.ip ELSE prevIP) /\ pc' = "fline"
                  ELSE /\ out' = Push(Err(Cause(ln.kind), pos, cur)) /\ UNCHANGED prevIP
                       /\ pc' \in {"fline", IF mode = "filehosts" THEN "done" ELSE "port"}        \* the pass may end here or go on
            /\ UNCHANGED <<mode, file, ports, excl, cache, gw, useFilter, useMac, portsLeft, cur, ipsLeft>>
FileEnd == /\ pc = "fline" /\ pos > Len(file) /\ pc' = (IF mode = "filehosts" THEN "done" ELSE "port")
           /\ UNCHANGED <<mode, file, ports, excl, cache, gw, useFilter, useMac, portsLeft, cur, pos, ipsLeft, prevIP, out>>
Next == Start \/ PortsDone \/ IPsDone \/ PairLine \/ PairEnd \/ FileLine \/ FileEnd
        \/ (\E p \in Port : NextPort(p)) \/ (\E a \in Addr : EmitIP(a))
Spec == Init /\ [][Next]_vars
(* ---- properties ---- *)
Idx == 1..Len(out)
Reqs == {i \in Idx : out[i].k = "req"}
Resolvable(a) == ~useMac \/ a \in cache \/ gw
\* C01/C02: at the end of a pass the probes are exactly the denoted set minus exclusions, each once
PassExact == (pc = "done" /\ mode \in {"subnet", "hosts"}) =>
                LET P == IF mode = "hosts" THEN {0} ELSE ports
                    want == {a \in Addr \ excl : Resolvable(a)} \X P IN
                /\ {<<out[i].ip, out[i].port>> : i \in Reqs} = want
                /\ Cardinality(Reqs) = Cardinality(want)
\* C02: nothing excluded, nothing foreign -- at every moment
Confined == \A i \in Reqs : out[i].ip \in Addr /\ out[i].ip \notin excl /\ (mode \in {"subnet", "filexports"} => out[i].port \in ports)
\* C11: a request carries the MAC of its own cache entry, else the gateway's, else it became an error
MacRight == \A i \in Reqs : useMac => (out[i].mac = IF out[i].ip \in cache THEN "own" ELSE "gw") /\ (out[i].mac = "gw" => gw)
NoMacIsError == \A i \in Idx : (out[i].k = "err" /\ out[i].cause = "nomac") => (useMac /\ ~gw)
\* C13 (pairs mode): each bad line that was reached gives exactly one error with its own cause and no request;
\* the requests are the valid, non-excluded, resolvable lines reached, in order, unchanged, unduplicated
Reached == IF pc = "done" /\ mode = "pairs" THEN pos - 1 ELSE 0
ErrsOf(ln) == {i \in Idx : out[i].k = "err" /\ out[i].line = ln}
BadEntryOneError == (pc = "done" /\ mode = "pairs") =>
   \A ln \in 1..Reached : file[ln].kind # "valid" =>
        /\ Cardinality(ErrsOf(ln)) = 1
        /\ \A i \in ErrsOf(ln) : out[i].cause = Cause(file[ln].kind)
        /\ ~\E i \in Reqs : out[i].line = ln
NeighboursIntact == (pc = "done" /\ mode = "pairs") =>
   /\ \A i \in Reqs : file[out[i].line].kind = "valid" /\ out[i].ip = file[out[i].line].ip /\ out[i].port = file[out[i].line].port
   /\ \A ln \in 1..Reached : (file[ln].kind = "valid" /\ file[ln].ip \notin excl) =>
          Cardinality({i \in Idx : out[i].line = ln}) = 1                      \* one request, or one "no MAC" error
   /\ \A i, j \in Idx : i < j => out[i].line < out[j].line
   /\ \A i \in Idx : out[i].line <= Reached
   /\ \A ln \in (Reached + 1)..Len(file) : ~\E i \in Idx : out[i].line = ln
\* C13 (file x ports): no request is made from a line that has no address of its own
NoBorrowedAddress == \A i \in Reqs : mode \in {"filexports", "filehosts"} => (HasIP(file[out[i].line]) /\ out[i].ip = file[out[i].line].ip)
===============================================================================
