SPECIFICATION Spec
CONSTANTS Byte = {5, 0, 9} MaxSteps = 3 AllowCancel = TRUE Emit = FALSE
INVARIANTS HitIff0500 TimeBounded
PROPERTIES Terminates
CHECK_DEADLOCK FALSE
