---- MODULE MC_Live ----
EXTENDS Live
====
