SPECIFICATION TSpec
CONSTANTS MaxLen = 0 CapErr = 101 AllowCancel = TRUE
CONSTRAINT HighWater
INVARIANTS SafeAtEnd NoCancelExact ClosedLast
POSTCONDITION TraceAccepted
CHECK_DEADLOCK FALSE
