--------------------------- MODULE AfpacketSource ---------------------------
(* pkg/packet/afpacket + command/root.go startPacketScanEngine: the AF_PACKET socket is opened (and bound, so  *)
(* the kernel starts queueing frames into its ring) BEFORE the BPF filter is attached; the receiver then reads   *)
(* whatever is in the ring. Frames that arrive in between are never seen by the filter (known finding F14).      *)
(* DrainOnAttach = TRUE models the usual repair (reject-all filter, drain the ring, then the real filter).       *)
EXTENDS Integers, Sequences, FiniteSets, TLC
CONSTANTS Frames,          \* frames on the wire; Match \subseteq Frames are the ones the scan's filter accepts
          Match, MaxArrivals, DrainOnAttach
VARIABLES phase,           \* "closed", "open" (bound, no filter yet), "filtered", "done"
          ring, delivered, arrivals
vars == <<phase, ring, delivered, arrivals>>
Init == phase = "closed" /\ ring = <<>> /\ delivered = <<>> /\ arrivals = 0
Open == phase = "closed" /\ phase' = "open" /\ UNCHANGED <<ring, delivered, arrivals>>
Arrive(f) == /\ arrivals < MaxArrivals /\ phase \in {"open", "filtered"} /\ arrivals' = arrivals + 1
             /\ ring' = IF phase = "open" \/ f \in Match THEN Append(ring, f) ELSE ring
             /\ UNCHANGED <<phase, delivered>>
Attach == /\ phase = "open" /\ phase' = "filtered"
          /\ ring' = IF DrainOnAttach THEN <<>> ELSE ring
          /\ UNCHANGED <<delivered, arrivals>>
\* the receiver goroutine is started after the filter was attached
Read == /\ phase = "filtered" /\ ring # <<>> /\ delivered' = Append(delivered, Head(ring)) /\ ring' = Tail(ring)
        /\ UNCHANGED <<phase, arrivals>>
Close == phase = "filtered" /\ phase' = "done" /\ UNCHANGED <<ring, delivered, arrivals>>
Next == Open \/ Attach \/ Read \/ Close \/ \E f \in Frames : Arrive(f)
Spec == Init /\ [][Next]_vars
\* C03: only frames the filter accepts reach the processor
FilteredOnly == \A i \in 1..Len(delivered) : delivered[i] \in Match
=============================================================================
