"""C20 — receiver survives every sequence of read faults as specified.
Spec: Receiver.tla (TLC exhaustive), ReceiverGen.tla (scenarios), ReceiverTrace.tla (validation of
traces recorded from the real packet.NewReceiver)."""
import os
import vf

LEVEL = "model_checking"
LEVEL_TEXT = ("TLC checks Receiver.tla exhaustively (every read-outcome script up to length 3 quick / 5 thorough over 8 outcome "
              "classes, cancel at any step, bounded error queue, safety + liveness); every script of that set (and cancel inside "
              "every k-th read) is then executed on the real packet.NewReceiver and each recorded trace must be a behaviour of the "
              "specification (trace validation by TLC), plus seeded random scripts up to length 400 that overflow the 100-slot buffer.")
NOTE = ("Trusted: TLC, the scripted Reader/Processor/consumer of the overlay harness (they only record), a 10 s hang bound. "
        "Scheduling inside the receiver goroutine is sampled, not enumerated.")
TECHNIQUE = "TLA+ model checking (TLC) + trace validation of the real receiver against the spec + spec-generated fault scripts"
DESIGN_REF = "DESIGN.md section 5, C20"


def run(ctx):
    if ctx.replay:
        return vf.replay_trace(ctx, ctx.replay)
    quick = ctx.tier == "quick"
    ctx.cov["rule"] = ("scripts = all sequences of read outcomes over 8 classes up to the stated length (exhaustive, from "
                       "TLC), each without cancel and with cancel issued inside the k-th read for every k; plus seeded "
                       "random scripts of length <= 400 with error bursts > 100 against a slow consumer; distinct = "
                       "distinct (script, cancel point, consumer mode) scenarios")
    # (M) the specification itself, every script, cancel anywhere, safety + liveness
    if quick:
        ctx.tlc_mc("Receiver", "MC_Receiver_q3", workers=8, timeout=300)
    else:
        ctx.tlc_mc("Receiver", "MC_Receiver_q", workers=12, timeout=900)
        ctx.tlc_mc("Receiver", "MC_Receiver_t", workers=12, timeout=2400)
    # (R) scenarios from the specification
    scen = os.path.join(ctx.scratch, "c20-scen.ndjson")
    genlen, cancellen = (3, 3) if quick else (4, 4)
    r = ctx.tlc("ReceiverGen", env={"VF_GENLEN": genlen, "VF_CANCELLEN": cancellen, "VF_OUT": scen}, workers=1, timeout=600)
    if not r.no_error:
        raise vf.Inconclusive("scenario generation failed:\n" + r.out[-2000:])
    nscen = sum(1 for _ in open(scen))
    ctx.step("scenarios", n=nscen, genlen=genlen, cancellen=cancellen)
    # run them through the real receiver
    binary = ctx.go_build_test("./pkg/packet")
    trace = os.path.join(ctx.scratch, "c20-trace.ndjson")
    nrand = 300 if quick else 4000
    rc, out = ctx.go_run_test(binary, "^TestVfReceiver$", env={"VF_SCENARIOS": scen, "VF_OUT": trace, "VF_RANDOM": nrand,
                                                               "VERIF_SEED": ctx.seed, "VERIF_TIER": ctx.tier}, timeout=1500)
    extra = vf.crash_events(ctx, rc, out, "receiver")
    if extra:
        ev0 = vf.read_ndjson(trace) if os.path.exists(trace) else []
        vf.write_ndjson(trace, ev0 + extra)
    # (T) every recorded run must be a behaviour of the specification
    def key(run, evt):
        return "C20:%s:%s" % (evt.get("ev"), evt.get("o", evt.get("i", "")))
    nruns, nev = vf.validate_runs(ctx, "ReceiverTrace", trace, keyfn=key, label="receiver")
    ctx.count(0, [("scen", i) for i in range(nruns)])
    ev = vf.read_ndjson(trace)
    for r0 in vf.split_runs(ev)[:3] + vf.split_runs(ev)[-2:]:
        ctx.sample(r0[:40])
    ctx.assumptions += [
        "a receiver that neither delivers an error nor closes its stream for 10 s is counted as hung",
        "trace validation uses errc capacity 101: one item may be in flight between the consumer's receive and its log entry",
        "io.EOF-class sentinels are delivered unwrapped (the code compares with ==); wrapped forms are not part of the statement",
    ]
    # socket-level tier: the real AF_PACKET source on a wire where nothing matches the filter for 2.6 s: no error is reported, the scan
    # ends after its exit delay
    from checks import wire_tier as wt
    n3, rej = wt.run_wire(ctx, select=lambda s: s["name"] == "quiet-wire", label="c20w", focus="errors")
    wt.report(ctx, "C20", rej)
    n4, rej = wt.run_wire(ctx, select=lambda s: s["name"] == "quiet-wire", label="c20d", focus="delay")
    wt.report(ctx, "C20", rej)
    # the receiver inside the real packet engine (SetupPacketEngine: real sender, receiver, error merger): a burst of 150..420 frames that
    # fail processing while the sender is inside one write - all are processed and reported, the receiver never waits for the sender
    from checks import c07
    t3 = c07.pipeline_traces(ctx, free=0, big=0, cancel=0, procs=2 if ctx.tier == "quick" else 6, label="c20e")
    n5, _ = vf.validate_runs(ctx, "PacketScanObsTrace", t3, keyfn=lambda run, evt: "C20:engine:%s:%s" % (evt.get("ev"), evt.get("what", "")), label="receive burst in the engine", timeout=1500)
    # the real AF_PACKET source on a veth pair under the real receiver (private network namespace): frames sent before the filter was
    # attached are not processed, poll timeouts are silent, Close returns within the poll timeout also under traffic, and the receiver ends
    # after Close whether or not its context was cancelled (design: SourceLifetime.tla; finding F17)
    if wt.available():
        b2 = ctx.go_build_test("./pkg/packet/afpacket")
        so = os.path.join(ctx.scratch, "c20-source.ndjson")
        rc, o = ctx.go_run_test(b2, "^TestVfSource$", {"VF_OUT": so, "VF_REPS": 2 if ctx.tier == "quick" else 12}, 900, True)
        ev = vf.read_ndjson(so) if os.path.exists(so) else []
        ev += vf.crash_events(ctx, rc, o, "source")
        so2 = os.path.join(ctx.scratch, "c20-source-all.ndjson")
        vf.write_ndjson(so2, ev)
        vf.validate_runs(ctx, "SourceTrace", so2, keyfn=lambda run, evt: "C20:source:%s:%s" % (evt.get("ev"), evt.get("what", evt.get("text", ""))[:60]), label="real AF_PACKET source")
    else:
        ctx.notes.append("real AF_PACKET source step skipped: unshare -n is not permitted here")
