------------------------------ MODULE ScanRun ------------------------------
(* One run of a packet-scan command as it is seen on the wire: the chunk loop of command/root.go                         *)
(*   startPortScanEngine  (at most 200 port ranges per pass)                                                            *)
(*     -> startPacketScanEngine (open the AF_PACKET source, attach the BPF filter of THIS pass, build the engine)        *)
(*        -> startScanEngine    (send everything, then keep listening for the exit delay, then cancel and return)        *)
(* with explicit time. Every pass ("chunk") has its own socket and its own filter, so a reply can only be received by    *)
(* the pass that sent the probe it answers.                                                                              *)
(*                                                                                                                       *)
(* Actions carry the time t at which they happen (t >= now). The model checker lets t range over now..now+1; the trace   *)
(* specification ScanRunTrace binds t to the capture time of the event it consumes. Steps nobody can observe from        *)
(* outside (FinishSending, Close, Emit) are separate actions, as they are separate steps of the code.                   *)
(*                                                                                                                       *)
(* Variant = "asbuilt"        every pass listens for Delay after its last probe (the code)                               *)
(*           "delayOnlyLast"  only the last pass waits (seeded change C16-m3): LateReplyReported must fail                *)
(*           "timerAtStart"   the delay timer is armed when the pass starts (seeded change C08-m4): DelayHonoured fails   *)
(*           "passAfterCancel" the chunk loop does not look at the cancellation between passes (finding F18, as found):       *)
(*                            NoPassAfterCancel must fail                                                               *)
(* Cancel is Ctrl-C: nothing more is opened, at most InFlight probes that were already being built still leave, the      *)
(* running pass is closed without waiting for its exit delay and the run is over.                                        *)
(* AttachAtomic = FALSE models the window between socket open and filter attach of the AF_PACKET source (finding F14):   *)
(* NoForeign must fail.                                                                                                  *)
EXTENDS Integers, FiniteSets, Sequences
CONSTANTS ChunkKeys,        \* sequence of sets: the (address, port) keys each pass probes
          Frames,           \* frames that may arrive
          Acc(_, _),        \* Acc(f, ch): frame f is reply-shaped under the filter of pass ch
          Rec(_, _),        \* Rec(f, ch): the record printed for f
          Delay, Lat,       \* exit delay; upper bound on the time from wire to output of an accepted frame
          MaxT, Variant, AttachAtomic, InFlight
VARIABLES c, phase, sentN, now, openT, lastSend, queue, out, hist, closeT, cancelled
vars == <<c, phase, sentN, now, openT, lastSend, queue, out, hist, closeT, cancelled>>
NChunks == Len(ChunkKeys)
AllKeys == UNION {ChunkKeys[i] : i \in 1..NChunks}
Phases == {"closed", "opened", "sending", "listening", "done"}
Init == /\ c = 0 /\ phase = "closed" /\ sentN = [k \in AllKeys |-> 0] /\ now = 0 /\ openT = 0 /\ lastSend = 0
        /\ queue = {} /\ out = <<>> /\ hist = {} /\ closeT = <<>> /\ cancelled = [on |-> FALSE, t |-> 0, sends |-> 0]
\* nothing moves time beyond the moment an accepted frame must have been printed
NoOverdue(t) == \A q \in queue : t <= q.t + Lat
Adv(t) == t >= now /\ NoOverdue(t) /\ now' = t
\* a pass starts: socket opened (and, atomically or not, its filter attached)
Open(t) == /\ phase = "closed" /\ c < NChunks /\ Adv(t) /\ (cancelled.on => Variant = "passAfterCancel")
           /\ c' = c + 1 /\ phase' = (IF AttachAtomic THEN "sending" ELSE "opened") /\ openT' = t /\ lastSend' = t
           /\ UNCHANGED <<sentN, queue, out, hist, closeT, cancelled>>
Attach(t) == /\ phase = "opened" /\ Adv(t) /\ phase' = "sending"
             /\ UNCHANGED <<c, sentN, openT, lastSend, queue, out, hist, closeT, cancelled>>
\* one probe of the current pass reaches the wire
Send(k, t) == /\ phase = "sending" /\ k \in ChunkKeys[c] /\ sentN[k] = 0 /\ Adv(t)
              /\ (cancelled.on => cancelled.sends < InFlight)
              /\ cancelled' = (IF cancelled.on THEN [cancelled EXCEPT !.sends = @ + 1] ELSE cancelled)
              /\ sentN' = [sentN EXCEPT ![k] = 1] /\ lastSend' = t
              /\ UNCHANGED <<c, phase, openT, queue, out, hist, closeT>>
\* the engine signals done: every probe of the pass has been handed to the wire
FinishSending == /\ phase = "sending" /\ \A k \in ChunkKeys[c] : sentN[k] = 1
                 /\ phase' = "listening" /\ UNCHANGED <<c, sentN, now, openT, lastSend, queue, out, hist, closeT, cancelled>>
\* a frame arrives on the wire. It reaches the processor iff a socket is open and (its filter being attached) accepts it.
SocketOpen == phase \in {"opened", "sending", "listening"}
Arrive(f, t) == /\ phase # "done" /\ Adv(t)
                /\ LET acc == SocketOpen /\ (phase = "opened" \/ Acc(f, c)) IN
                   /\ queue' = IF acc THEN queue \cup {[f |-> f, t |-> t, ch |-> c]} ELSE queue
                   /\ hist' = hist \cup {[f |-> f, t |-> t, ch |-> c, acc |-> acc, shaped |-> SocketOpen /\ Acc(f, c), answers |-> c >= 1 /\ Acc(f, c)]}
                /\ UNCHANGED <<c, phase, sentN, openT, lastSend, out, closeT, cancelled>>
\* receiver -> processor -> result channel -> logger: the record of an accepted frame is printed
Emit(q) == /\ q \in queue /\ queue' = queue \ {q} /\ out' = Append(out, [r |-> Rec(q.f, q.ch), f |-> q.f, t |-> q.t, ch |-> q.ch])
            /\ UNCHANGED <<c, phase, sentN, now, openT, lastSend, hist, closeT, cancelled>>
\* the exit delay is over: the pass is cancelled, its socket closed; what is still queued is lost
CloseAllowed(t) == CASE Variant = "asbuilt" -> t >= lastSend + Delay
                     [] Variant = "delayOnlyLast" -> c < NChunks \/ t >= lastSend + Delay
                     [] Variant = "timerAtStart" -> t >= openT + Delay
Close(t) == /\ phase = "listening" /\ ~cancelled.on /\ Adv(t) /\ CloseAllowed(t)
            /\ phase' = (IF c = NChunks THEN "done" ELSE "closed") /\ queue' = {} /\ closeT' = Append(closeT, [t |-> t, last |-> lastSend])
            /\ UNCHANGED <<c, sentN, openT, lastSend, out, hist, cancelled>>
\* Ctrl-C, and what follows it: the running pass (if any) is closed at once; no further pass is started (unless the variant says so)
Cancel(t) == /\ ~cancelled.on /\ phase # "done" /\ Adv(t) /\ cancelled' = [on |-> TRUE, t |-> t, sends |-> 0]
             /\ UNCHANGED <<c, phase, sentN, openT, lastSend, queue, out, hist, closeT>>
Abort(t) == /\ cancelled.on /\ phase \in {"opened", "sending", "listening"} /\ Adv(t)
            /\ phase' = (IF Variant = "passAfterCancel" /\ c < NChunks THEN "closed" ELSE "done") /\ queue' = {}
            /\ closeT' = Append(closeT, [t |-> t, last |-> lastSend])
            /\ UNCHANGED <<c, sentN, openT, lastSend, out, hist, cancelled>>
Finish(t) == /\ cancelled.on /\ phase = "closed" /\ Variant # "passAfterCancel" /\ Adv(t) /\ phase' = "done"
             /\ UNCHANGED <<c, sentN, openT, lastSend, queue, out, hist, closeT, cancelled>>
Times == now..(IF now < MaxT THEN now + 1 ELSE now)
Next == \E t \in Times : \/ Open(t) \/ Attach(t) \/ Close(t) \/ Cancel(t) \/ Abort(t) \/ Finish(t)
                         \/ \E k \in AllKeys : Send(k, t)
                         \/ \E f \in Frames : [f |-> f] \notin {[f |-> h.f] : h \in hist} /\ Arrive(f, t)     \* each frame arrives at most once
        \/ FinishSending \/ \E q \in queue : Emit(q)
Spec == Init /\ [][Next]_vars
----------------------------------------------------------------------------
TypeOK == /\ c \in 0..NChunks /\ phase \in Phases /\ now \in 0..MaxT /\ sentN \in [AllKeys -> 0..1]
\* C01 at the wire: when the run is over every key of every pass was sent exactly once; keys of later passes never early
CoverageAtDone == (phase = "done" /\ ~cancelled.on) => \A k \in AllKeys : sentN[k] = 1
\* C12: after Ctrl-C no pass is started, and at most InFlight probes still leave
NoPassAfterCancel == [][cancelled.on => c' = c]_vars
FewSendsAfterCancel == cancelled.sends <= InFlight
InOrder == \A i \in 1..NChunks : (i > c => \A k \in ChunkKeys[i] \ UNION {ChunkKeys[j] : j \in 1..c} : sentN[k] = 0)
\* C16: a pass is closed no earlier than Delay after its last probe
DelayHonoured == [][(phase = "listening" /\ phase' # "listening" /\ ~cancelled.on) => now' >= lastSend + Delay]_vars
\* C16 / C03: a frame that answers a probe of the most recent pass (reply-shaped under that pass's filter) and arrives earlier than
\* Delay - Lat after that pass's last probe has been printed when the pass is closed
LateReplyReported ==
   \A h \in hist : (h.answers /\ h.ch <= Len(closeT) /\ h.t >= closeT[h.ch].last /\ h.t + Lat < closeT[h.ch].last + Delay
                    /\ ~(cancelled.on /\ cancelled.t <= closeT[h.ch].last + Delay))
                   => \E i \in 1..Len(out) : out[i].f = h.f /\ out[i].t = h.t
\* C03: nothing is printed but records of frames that were reply-shaped for the pass running at their arrival, each at most once
NoForeign == \A i \in 1..Len(out) : \E h \in hist : h.f = out[i].f /\ h.t = out[i].t /\ h.shaped /\ out[i].r = Rec(h.f, h.ch)
AtMostOnce == \A i, j \in 1..Len(out) : (out[i].f = out[j].f /\ out[i].t = out[j].t) => i = j
\* the reply to a probe of pass i that arrives while pass j # i is running is not seen (per-pass filters): stated, not required
============================================================================
