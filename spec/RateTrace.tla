------------------------------ MODULE RateTrace ------------------------------
(* C15 on measured times: probe start / frame write times (microseconds, monotonic) of runs paced by the real      *)
(* go.uber.org/ratelimit limiter as the commands construct it from --rate. The clause is RateLimit!Spacing:        *)
(* any k consecutive probes take at least (k-1-b)*W/N, b = 10 (the limiter's fixed slack), up to the sender's      *)
(* lateness MaxLate (the limiter spaces scheduled times; a probe that wakes late shortens the following gap).     *)
(* The rate string must also parse to the (N, W) the reference grammar of Options gives.                           *)
EXTENDS Options, Json, IOUtils
Trace == ndJsonDeserialize(IOEnv.VERIF_TRACE)
B == 10
\* W/N in microseconds (rounded down: a smaller requirement)
PerUs(e) == (e.winMs * 1000 + e.winNs \div 1000) \div e.n
\* high-rate runs with one hanging probe ("tight"): the limiter spaces the moments Take returns, so the only lateness that can shorten a gap
\* is the delay between Take returning and the probe starting - bounded by how long the process itself was held up (measured: stallUs)
MaxLate(e, k) == IF e.tight THEN e.stallUs + 1500 + (k * PerUs(e)) \div 10 ELSE 60000 + (k * PerUs(e)) \div 10
SpacingOK(e) == LET t == e.times per == PerUs(e) IN
   \A i \in 1..Len(t) : \A j \in (i + 1)..Len(t) : t[j] - t[i] >= (j - i - B) * per - MaxLate(e, j - i)
ParsedOK(e) == LET x == ParseRate(e.chars) IN x.v \in {"accept", "exact"} /\ x.val = <<e.n, e.winMs, e.winNs>>
\* a run during which the measuring process itself was held up for more than StallLimit (its own 200 us sleeper overslept that long, in
\* each of three attempts) says nothing about spacing: the wake-ups of the limiter's sleepers were late for the same reason
StallLimit == 10000
RunOK(e) == ParsedOK(e) /\ Len(e.times) = e.expected /\ (e.stallUs > StallLimit \/ SpacingOK(e))
VARIABLE l
Init == l = 1
Next == l <= Len(Trace) /\ RunOK(Trace[l]) /\ l' = l + 1
TSpec == Init /\ [][Next]_l
HighWater == TLCSet(1, IF l > TLCGet(1) THEN l ELSE TLCGet(1))
ASSUME TLCSet(1, 0)
TraceAccepted == IF TLCGet(1) = Len(Trace) + 1 THEN PrintT(<<"TRACE ACCEPTED", Len(Trace)>>)
                 ELSE Print(<<"REJECTED at event", TLCGet(1), [rate |-> Trace[TLCGet(1)].rate, path |-> Trace[TLCGet(1)].path, workers |-> Trace[TLCGet(1)].workers]>>, FALSE)
==============================================================================
