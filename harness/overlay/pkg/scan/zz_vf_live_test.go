//go:build verif

package scan

// C19 harness: the real NewLiveRequestGenerator over the real NewIPRequestGenerator(NewIPGenerator()),
// through a delegate wrapper that records pass starts / ends (and can fail on a chosen pass) and a
// consumer that records what the live stream delivers. LiveTrace.tla decides.

import (
	"context"
	"errors"
	"fmt"
	"math/rand"
	"net"
	"os"
	"strconv"
	"sync"
	"testing"
	"time"
)

type vfLiveCfg struct {
	Bits       int // subnet 10.88.0.0/(32-Bits)
	IntervalUS int
	FailOn     int // delegate fails on this pass (0: never)
	Want       int // complete passes to observe before cancelling
	SlowUS     int // consumer delay per item (a pass may then last longer than the interval)
	CancelAt   int // cancel at the k-th event (0: after Want passes)
}

type vfLive struct {
	cfg    vfLiveCfg
	sink   *vfSink
	t0     time.Time
	mu     sync.Mutex
	calls  int
	ends   int
	nev    int
	cancel context.CancelFunc
	cdone  bool
	real   RequestGenerator
	endCh  chan int
}

func (v *vfLive) us() int { return int(time.Since(v.t0) / time.Microsecond) }
func (v *vfLive) ev(m map[string]interface{}) {
	v.sink.mu.Lock()
	if _, ok := m["t"]; !ok {
		m["t"] = v.us()
	}
	v.sink.logLocked(m)
	v.nev++
	if v.cfg.CancelAt > 0 && v.nev == v.cfg.CancelAt && !v.cdone && !v.sink.sealed {
		v.cdone = true
		v.sink.logLocked(map[string]interface{}{"ev": "Cancel", "t": v.us()})
		v.cancel()
	}
	v.sink.mu.Unlock()
}

func (v *vfLive) GenerateRequests(ctx context.Context, r *Range) (<-chan *Request, error) {
	v.mu.Lock()
	v.calls++
	k := v.calls
	v.mu.Unlock()
	if k == v.cfg.FailOn {
		v.ev(map[string]interface{}{"ev": "Start", "k": k, "ok": false})
		return nil, errors.New("vf: delegate failed to start")
	}
	v.ev(map[string]interface{}{"ev": "Start", "k": k, "ok": true})
	in, err := v.real.GenerateRequests(ctx, r)
	if err != nil {
		panic(err)
	}
	out := make(chan *Request)
	go func() {
		defer close(out)
		for req := range in {
			ip4 := req.DstIP.To4()
			v.ev(map[string]interface{}{"ev": "Emit", "k": k, "ip": int(ip4[3]) + 1})
			select {
			case <-ctx.Done():
				// logged before the channel is closed: never later than the moment the live generator can see the end
				v.ev(map[string]interface{}{"ev": "PassEnd", "k": k})
				return
			case out <- req:
			}
		}
		v.ev(map[string]interface{}{"ev": "PassEnd", "k": k})
		select {
		case v.endCh <- k:
		default:
		}
	}()
	return out, nil
}

func vfRunLive(cfg vfLiveCfg) []map[string]interface{} {
	v := &vfLive{cfg: cfg, sink: &vfSink{}, t0: time.Now(), real: NewIPRequestGenerator(NewIPGenerator()), endCh: make(chan int, 64)}
	naddr := 1 << cfg.Bits
	v.sink.log(map[string]interface{}{"ev": "Reset", "naddr": naddr, "intervalUs": cfg.IntervalUS, "failOn": cfg.FailOn, "t": 0})
	ctx, cancel := context.WithCancel(context.Background())
	v.cancel = cancel
	defer cancel()
	live := NewLiveRequestGenerator(v, time.Duration(cfg.IntervalUS)*time.Microsecond)
	_, subnet, _ := net.ParseCIDR(fmt.Sprintf("10.88.0.0/%d", 32-cfg.Bits))
	out, err := live.GenerateRequests(ctx, &Range{DstSubnet: subnet})
	if err != nil {
		// the first pass failed to start: the generator refuses to start at all (an error, not a crash)
		v.sink.log(map[string]interface{}{"ev": "Cancel", "t": v.us()})
		v.sink.log(map[string]interface{}{"ev": "Closed", "t": v.us()})
		return v.sink.seal()
	}
	closed := make(chan struct{})
	go func() {
		for req := range out {
			ip4 := req.DstIP.To4()
			v.ev(map[string]interface{}{"ev": "Item", "ip": int(ip4[3]) + 1})
			if cfg.SlowUS > 0 {
				time.Sleep(time.Duration(cfg.SlowUS) * time.Microsecond)
			}
		}
		v.ev(map[string]interface{}{"ev": "Closed"})
		close(closed)
	}()
	if cfg.CancelAt == 0 {
		// passes keep coming: wait for `Want` complete passes (bounded), or, when the delegate is told to fail, for the failure plus two intervals
		deadline := time.After(time.Duration(cfg.Want)*(time.Duration(cfg.IntervalUS)*time.Microsecond+time.Duration(naddr*cfg.SlowUS)*time.Microsecond) + 20*time.Second)
		got := 0
	wait:
		for got < cfg.Want {
			select {
			case k := <-v.endCh:
				got = k
				if cfg.FailOn > 0 && k == cfg.FailOn-1 {
					time.Sleep(3 * time.Duration(cfg.IntervalUS) * time.Microsecond)
					break wait
				}
			case <-deadline:
				v.sink.log(map[string]interface{}{"ev": "Hang", "what": "passes stopped coming", "t": v.us()})
				cancel()
				return v.sink.seal()
			}
		}
		v.sink.mu.Lock()
		if !v.cdone {
			v.cdone = true
			v.sink.logLocked(map[string]interface{}{"ev": "Passes", "want": cfg.Want, "t": v.us()})
			v.sink.logLocked(map[string]interface{}{"ev": "Cancel", "t": v.us()})
			cancel()
		}
		v.sink.mu.Unlock()
	}
	select {
	case <-closed:
	case <-time.After(time.Duration(cfg.CancelAt)*time.Duration(cfg.IntervalUS+cfg.SlowUS)*time.Microsecond + 15*time.Second):
		if cfg.CancelAt > 0 && !v.cdone {
			// the run ended before reaching the cancel point
			v.sink.mu.Lock()
			v.cdone = true
			v.sink.logLocked(map[string]interface{}{"ev": "Cancel", "t": v.us()})
			cancel()
			v.sink.mu.Unlock()
			select {
			case <-closed:
				return v.sink.seal()
			case <-time.After(10 * time.Second):
			}
		}
		v.sink.log(map[string]interface{}{"ev": "Hang", "what": "live stream not closed 10 s after cancel", "t": v.us()})
	}
	return v.sink.seal()
}

func TestVfLive(t *testing.T) {
	out := vfOpenOut(t, "VF_OUT")
	defer out.close()
	seed, _ := strconv.ParseInt(os.Getenv("VERIF_SEED"), 10, 64)
	shard, _ := strconv.Atoi(os.Getenv("VF_SHARD"))
	nshard, _ := strconv.Atoi(os.Getenv("VF_NSHARD"))
	thorough := os.Getenv("VERIF_TIER") == "thorough"
	rnd := rand.New(rand.NewSource(seed*49979687 + 13))
	var cfgs []vfLiveCfg
	// complete passes, fast and slow consumers (a slow pass lasts longer than the interval)
	for _, bits := range []int{0, 1, 2, 4} {
		for _, iv := range []int{20000, 60000} {
			cfgs = append(cfgs, vfLiveCfg{Bits: bits, IntervalUS: iv, Want: 4})
			cfgs = append(cfgs, vfLiveCfg{Bits: bits, IntervalUS: iv, Want: 3, SlowUS: (iv * 3 / 2) / (1 << bits)})
		}
	}
	// delegate failing on pass 1, 2, 3
	for _, f := range []int{1, 2, 3} {
		cfgs = append(cfgs, vfLiveCfg{Bits: 2, IntervalUS: 30000, Want: 5, FailOn: f})
	}
	// cancel at every event of a short run, with and without a failing delegate
	probe := vfRunLive(vfLiveCfg{Bits: 1, IntervalUS: 15000, Want: 3})
	for at := 1; at <= len(probe)+1; at++ {
		cfgs = append(cfgs, vfLiveCfg{Bits: 1, IntervalUS: 15000, Want: 3, CancelAt: at})
		if at%2 == 0 {
			cfgs = append(cfgs, vfLiveCfg{Bits: 1, IntervalUS: 15000, Want: 3, CancelAt: at, FailOn: 2})
		}
	}
	n := 12
	if thorough {
		n = 150
	}
	for k := 0; k < n; k++ {
		c := vfLiveCfg{Bits: rnd.Intn(6), IntervalUS: 5000 + rnd.Intn(80000), Want: 2 + rnd.Intn(4)}
		if rnd.Intn(3) == 0 {
			c.SlowUS = rnd.Intn(3000)
		}
		if rnd.Intn(4) == 0 {
			c.FailOn = 2 + rnd.Intn(3)
		}
		if rnd.Intn(3) == 0 {
			c.CancelAt = 1 + rnd.Intn(40)
		}
		cfgs = append(cfgs, c)
	}
	runs := 0
	for i, c := range cfgs {
		if nshard > 1 && i%nshard != shard {
			continue
		}
		out.write(vfRunLive(c))
		runs++
	}
	fmt.Printf("VF_RUNS=%d VF_EVENTS=%d\n", runs, out.n)
}
