SPECIFICATION Spec
CONSTANTS Emit = FALSE
INVARIANTS HitIffJsonObject SecondaryHarmless TimeBounded
PROPERTIES Ends
CHECK_DEADLOCK FALSE
