---- MODULE SourceLifetime_TTrace_1790662506 ----
EXTENDS Sequences, TLCExt, SourceLifetime, Toolbox, Naturals, TLC

_expression ==
    LET SourceLifetime_TEExpression == INSTANCE SourceLifetime_TEExpression
    IN SourceLifetime_TEExpression!expression
----

_trace ==
    LET SourceLifetime_TETrace == INSTANCE SourceLifetime_TETrace
    IN SourceLifetime_TETrace!trace
----

_inv ==
    ~(
        TLCGet("level") = Len(_TETrace)
        /\
        rlocked = (FALSE)
        /\
        avail = (0)
        /\
        arrived = (0)
        /\
        rd = ("stopped")
        /\
        closedFlag = (TRUE)
        /\
        mapped = (FALSE)
        /\
        fault = (FALSE)
        /\
        cl = ("done")
        /\
        ctxDone = (TRUE)
    )
----

_init ==
    /\ rd = _TETrace[1].rd
    /\ rlocked = _TETrace[1].rlocked
    /\ ctxDone = _TETrace[1].ctxDone
    /\ fault = _TETrace[1].fault
    /\ cl = _TETrace[1].cl
    /\ closedFlag = _TETrace[1].closedFlag
    /\ mapped = _TETrace[1].mapped
    /\ avail = _TETrace[1].avail
    /\ arrived = _TETrace[1].arrived
----

_next ==
    /\ \E i,j \in DOMAIN _TETrace:
        /\ \/ /\ j = i + 1
              /\ i = TLCGet("level")
        /\ rd  = _TETrace[i].rd
        /\ rd' = _TETrace[j].rd
        /\ rlocked  = _TETrace[i].rlocked
        /\ rlocked' = _TETrace[j].rlocked
        /\ ctxDone  = _TETrace[i].ctxDone
        /\ ctxDone' = _TETrace[j].ctxDone
        /\ fault  = _TETrace[i].fault
        /\ fault' = _TETrace[j].fault
        /\ cl  = _TETrace[i].cl
        /\ cl' = _TETrace[j].cl
        /\ closedFlag  = _TETrace[i].closedFlag
        /\ closedFlag' = _TETrace[j].closedFlag
        /\ mapped  = _TETrace[i].mapped
        /\ mapped' = _TETrace[j].mapped
        /\ avail  = _TETrace[i].avail
        /\ avail' = _TETrace[j].avail
        /\ arrived  = _TETrace[i].arrived
        /\ arrived' = _TETrace[j].arrived

\* Uncomment the ASSUME below to write the states of the error trace
\* to the given file in Json format. Note that you can pass any tuple
\* to `JsonSerialize`. For example, a sub-sequence of _TETrace.
    \* ASSUME
    \*     LET J == INSTANCE Json
    \*         IN J!JsonSerialize("SourceLifetime_TTrace_1790662506.json", _TETrace)

=============================================================================

 Note that you can extract this module `SourceLifetime_TEExpression`
  to a dedicated file to reuse `expression` (the module in the 
  dedicated `SourceLifetime_TEExpression.tla` file takes precedence 
  over the module `SourceLifetime_TEExpression` below).

---- MODULE SourceLifetime_TEExpression ----
EXTENDS Sequences, TLCExt, SourceLifetime, Toolbox, Naturals, TLC

expression == 
    [
        \* To hide variables of the `SourceLifetime` spec from the error trace,
        \* remove the variables below.  The trace will be written in the order
        \* of the fields of this record.
        rd |-> rd
        ,rlocked |-> rlocked
        ,ctxDone |-> ctxDone
        ,fault |-> fault
        ,cl |-> cl
        ,closedFlag |-> closedFlag
        ,mapped |-> mapped
        ,avail |-> avail
        ,arrived |-> arrived
        
        \* Put additional constant-, state-, and action-level expressions here:
        \* ,_stateNumber |-> _TEPosition
        \* ,_rdUnchanged |-> rd = rd'
        
        \* Format the `rd` variable as Json value.
        \* ,_rdJson |->
        \*     LET J == INSTANCE Json
        \*     IN J!ToJson(rd)
        
        \* Lastly, you may build expressions over arbitrary sets of states by
        \* leveraging the _TETrace operator.  For example, this is how to
        \* count the number of times a spec variable changed up to the current
        \* state in the trace.
        \* ,_rdModCount |->
        \*     LET F[s \in DOMAIN _TETrace] ==
        \*         IF s = 1 THEN 0
        \*         ELSE IF _TETrace[s].rd # _TETrace[s-1].rd
        \*             THEN 1 + F[s-1] ELSE F[s-1]
        \*     IN F[_TEPosition - 1]
    ]

=============================================================================



Parsing and semantic processing can take forever if the trace below is long.
 In this case, it is advised to uncomment the module below to deserialize the
 trace from a generated binary file.

\*
\*---- MODULE SourceLifetime_TETrace ----
\*EXTENDS IOUtils, SourceLifetime, TLC
\*
\*trace == IODeserialize("SourceLifetime_TTrace_1790662506.bin", TRUE)
\*
\*=============================================================================
\*

---- MODULE SourceLifetime_TETrace ----
EXTENDS SourceLifetime, TLC

trace == 
    <<
    ([rlocked |-> FALSE,avail |-> 0,arrived |-> 0,rd |-> "top",closedFlag |-> FALSE,mapped |-> TRUE,fault |-> FALSE,cl |-> "idle",ctxDone |-> FALSE]),
    ([rlocked |-> FALSE,avail |-> 0,arrived |-> 0,rd |-> "top",closedFlag |-> FALSE,mapped |-> TRUE,fault |-> FALSE,cl |-> "idle",ctxDone |-> TRUE]),
    ([rlocked |-> FALSE,avail |-> 0,arrived |-> 0,rd |-> "stopped",closedFlag |-> FALSE,mapped |-> TRUE,fault |-> FALSE,cl |-> "idle",ctxDone |-> TRUE]),
    ([rlocked |-> FALSE,avail |-> 0,arrived |-> 0,rd |-> "stopped",closedFlag |-> FALSE,mapped |-> TRUE,fault |-> FALSE,cl |-> "waiting",ctxDone |-> TRUE]),
    ([rlocked |-> FALSE,avail |-> 0,arrived |-> 0,rd |-> "stopped",closedFlag |-> TRUE,mapped |-> FALSE,fault |-> FALSE,cl |-> "done",ctxDone |-> TRUE])
    >>
----


=============================================================================

---- CONFIG SourceLifetime_TTrace_1790662506 ----
CONSTANTS
    Locked = TRUE
    Copying = TRUE
    PollTimeout = FALSE
    MaxFrames = 3

INVARIANT
    _inv

CHECK_DEADLOCK
    \* CHECK_DEADLOCK off because of PROPERTY or INVARIANT above.
    FALSE

INIT
    _init

NEXT
    _next

CONSTANT
    _TETrace <- _trace

ALIAS
    _expression
=============================================================================
\* Generated on Tue Sep 29 06:15:07 UTC 2026