"""Socket-level tier shared by C01 / C02 / C03 / C12 / C15 / C16 / C17: the real sx binary on a virtual wire
(veth in a private network namespace, loopback for application scans). Scenarios are built here, executed by
TestVfWire (harness/overlay/command/zz_vf_wire_test.go) under `unshare -n`, stdout is decoded to records (projection)
and WireRunTrace.tla decides."""
import json
import os
import subprocess
import vf

MY = [2, 0x5a, 0, 0, 0, 1]          # MAC of sx's side of the veth
GW = [2, 0x5a, 0, 0, 0, 0xfe]       # --gwmac
SRC = [10, 9, 0, 77]                # --srcip: in the subnet, not assigned locally (the kernel drops replies silently)


def ck(b):
    s = 0
    for i in range(0, len(b) - 1, 2):
        s += (b[i] << 8) | b[i + 1]
    if len(b) % 2:
        s += b[-1] << 8
    while s >> 16:
        s = (s & 0xffff) + (s >> 16)
    return (~s) & 0xffff


def eth(dst, src, et):
    return dst + src + [et >> 8, et & 255]


def ip4(proto, src, dst, payload, ttl=64):
    h = [0x45, 0, 0, 0, 0x12, 0x34, 0x40, 0, ttl, proto, 0, 0] + src + dst
    tl = 20 + len(payload)
    h[2], h[3] = tl >> 8, tl & 255
    c = ck(h)
    h[10], h[11] = c >> 8, c & 255
    return h + payload


def tcp(sport, dport, flags):
    return [sport >> 8, sport & 255, dport >> 8, dport & 255, 0, 0, 0, 1, 0, 0, 0, 2, 0x50 | ((flags >> 8) & 1), flags & 255, 0xfa, 0xf0, 0, 0, 0, 0]


def tcp_reply(src, sport, flags, dst=None):
    return eth(MY, GW, 0x0800) + ip4(6, src, dst or SRC, tcp(sport, 40000, flags))


def tcp_reply_opts(src, sport, flags, ipopt, tcpopt):
    """a reply whose IPv4 header carries ipopt bytes of NOP options and whose TCP header carries tcpopt bytes of NOP options"""
    t = tcp(sport, 40000, flags)
    t[12] = ((5 + tcpopt // 4) << 4) | (t[12] & 1)
    t = t + [1] * tcpopt
    h = [0x40 | (5 + ipopt // 4), 0, 0, 0, 0x12, 0x34, 0x40, 0, 64, 6, 0, 0] + src + SRC + [1] * ipopt
    tl = len(h) + len(t)
    h[2], h[3] = tl >> 8, tl & 255
    c = ck(h)
    h[10], h[11] = c >> 8, c & 255
    return eth(MY, GW, 0x0800) + h + t


def icmp_reply(src, typ, code, ttl=61, dst=None):
    m = [typ, code, 0, 0, 0x12, 0x34, 0, 1, 1, 2, 3]
    c = ck(m)
    m[2], m[3] = c >> 8, c & 255
    return eth(MY, GW, 0x0800) + ip4(1, src, dst or SRC, m, ttl)


def arp_reply(spa, sha):
    return eth(MY, sha, 0x0806) + [0, 1, 8, 0, 6, 4, 0, 2] + sha + spa + MY + [10, 9, 0, 1] + [0] * 18


def rng(lo, hi):
    return {"lo": lo, "hi": hi}


def target(net, length, ranges=(), pairs=(), exclude=()):
    return {"net": {"ip": net, "len": length}, "ranges": list(ranges), "pairs": list(pairs), "exclude": list(exclude)}


NORATE = {"n": 0, "winMs": 0, "winNs": 0}
COMMON = ["--srcip", "10.9.0.77", "--gwmac", "02:5a:00:00:00:fe", "-a", "{dir}/empty"]


def packet_expect(scan, tgt, chunk_ranges, chunk_probes, delay_ms, has_net=True, rate=None, srcip=None, srcmac=None, dstmac=None):
    return {"kind": "packet", "scan": scan, "target": tgt, "hasNet": has_net, "chunkRanges": chunk_ranges, "chunkProbes": chunk_probes, "delayUs": delay_ms * 1000,
            "rate": rate or NORATE, "srcip": srcip or SRC, "srcmac": srcmac or MY, "dstmac": dstmac or GW, "dstmacs": [], "vpn": False, "nerr": -1}


def scenarios(tier):
    sc = []
    net30 = [10, 9, 3, 0]
    a = lambda d: [10, 9, 3, d]
    # 1. tcp syn on a subnet: coverage, SYN+ACK exactness, late reply inside the delay, exit after the delay
    sc.append({"name": "tcp-syn-subnet", "args": ["tcp", "syn", "--json", "-p", "80-81"] + COMMON + ["--exit-delay", "700ms", "10.9.3.0/30"], "files": {"empty": ""},
               "inject": [{"bytes": tcp_reply(a(1), 80, 0x12), "afterProbe": 1, "delayMs": 40},
                          {"bytes": tcp_reply(a(2), 81, 0x52), "afterProbe": 1, "delayMs": 50},     # SYN+ACK+ECE
                          {"bytes": tcp_reply(a(3), 80, 0x14), "afterProbe": 1, "delayMs": 60},     # RST+ACK
                          {"bytes": tcp_reply(a(1), 82, 0x12), "afterProbe": 1, "delayMs": 65},     # port outside the ranges
                          {"bytes": tcp_reply([10, 9, 4, 1], 80, 0x12), "afterProbe": 1, "delayMs": 70},  # source outside the subnet
                          {"bytes": tcp_reply(a(2), 80, 0x12), "afterProbe": 8, "delayMs": 350}],   # late, inside the delay
               "expect": packet_expect("tcpsyn", target(net30, 30, [rng(80, 81)]), [[rng(80, 81)]], [8], 700)})
    # 2. default tcp command (no --flags) is the SYN scan
    sc.append({"name": "tcp-default-is-syn", "args": ["tcp", "--json", "-p", "443"] + COMMON + ["--exit-delay", "500ms", "10.9.3.2/31"], "files": {"empty": ""},
               "inject": [{"bytes": tcp_reply(a(2), 443, 0x12), "afterProbe": 1, "delayMs": 40}, {"bytes": tcp_reply(a(3), 443, 0x10), "afterProbe": 1, "delayMs": 50}],
               "expect": packet_expect("tcpsyn", target([10, 9, 3, 2], 31, [rng(443, 443)]), [[rng(443, 443)]], [2], 500)})
    # 3. tcp --flags / fin: every flag combination is reported with its letters
    for name, cmd, scan in (("tcp-flags", ["tcp", "--flags", "fin,ack"], "tcpflags"), ("tcp-fin", ["tcp", "fin"], "tcpfin")):
        sc.append({"name": name, "args": cmd + ["--json", "-p", "22,80"] + COMMON + ["--exit-delay", "500ms", "10.9.3.1"], "files": {"empty": ""},
                   "inject": [{"bytes": tcp_reply(a(1), 22, 0x14), "afterProbe": 1, "delayMs": 40}, {"bytes": tcp_reply(a(1), 80, 0x1ff), "afterProbe": 1, "delayMs": 50},
                              {"bytes": tcp_reply(a(1), 81, 0x14), "afterProbe": 1, "delayMs": 60}],
                   "expect": packet_expect(scan, target(a(1), 32, [rng(22, 22), rng(80, 80)]), [[rng(22, 22), rng(80, 80)]], [2], 500)})
    # 3'. null / xmas: the flag sets of the probes (C05 re-encodes them) and reports for every reply, with --ports-file and --exclude
    for name, cmd, scan in (("tcp-null", ["tcp", "null"], "tcpnull"), ("tcp-xmas", ["tcp", "xmas"], "tcpxmas")):
        sc.append({"name": name, "args": cmd + ["--json", "--ports-file", "{dir}/ports", "--exclude", "{dir}/excl"] + COMMON + ["--exit-delay", "400ms", "10.9.3.0/30"],
                   "files": {"empty": "", "ports": "# services\n22\n\n80-81\n", "excl": "10.9.3.0/31\n"},
                   "inject": [{"bytes": tcp_reply(a(2), 22, 0x14), "afterProbe": 1, "delayMs": 40}, {"bytes": tcp_reply(a(1), 80, 0x14), "afterProbe": 1, "delayMs": 50}],
                   "expect": packet_expect(scan, target(net30, 30, [rng(22, 22), rng(80, 81)], exclude=[{"ip": net30, "len": 31}]), [[rng(22, 22), rng(80, 81)]], [6], 400)})
    # 3". partially overlapping port ranges: the ports in the overlap are probed once per range that names them (the filter is built from
    # the same ranges first; it must leave them as they are)
    ov = [rng(20, 23), rng(22, 26)]
    sc.append({"name": "tcp-overlapping-ranges", "args": ["tcp", "fin", "--json", "-p", "20-23,22-26"] + COMMON + ["--exit-delay", "400ms", "10.9.3.1"], "files": {"empty": ""},
               "inject": [{"bytes": tcp_reply(a(1), 25, 0x14), "afterProbe": 1, "delayMs": 40}, {"bytes": tcp_reply(a(1), 27, 0x14), "afterProbe": 1, "delayMs": 50}],
               "expect": packet_expect("tcpfin", target(a(1), 32, ov), [ov], [9], 400)})
    # 4. more than 200 port ranges: two engine runs, each with its own filter and its own exit delay
    ports = list(range(1000, 1201))
    chunk1, chunk2 = [rng(p, p) for p in ports[:200]], [rng(p, p) for p in ports[200:]]
    sc.append({"name": "tcp-chunked-201", "args": ["tcp", "syn", "--json", "-p", ",".join(str(p) for p in ports)] + COMMON + ["--exit-delay", "600ms", "10.9.3.1"], "files": {"empty": ""},
               "inject": [{"bytes": tcp_reply(a(1), 1005, 0x12), "afterProbe": 200, "delayMs": 250},   # late reply for the first chunk, inside its delay
                          {"bytes": tcp_reply(a(1), 1200, 0x12), "afterProbe": 200, "delayMs": 300},   # a port of the second chunk while the first is listening
                          {"bytes": tcp_reply(a(1), 1200, 0x12), "afterProbe": 201, "delayMs": 100}],
               "expect": packet_expect("tcpsyn", target(a(1), 32, chunk1 + chunk2), [chunk1, chunk2], [200, 1], 600)})
    # 4'. more than 200 port ranges with a rate limit: every pass is paced
    sc.append({"name": "tcp-chunked-rate", "args": ["tcp", "syn", "--json", "--rate", "500/s", "-p", ",".join(str(p) for p in ports)] + COMMON + ["--exit-delay", "300ms", "10.9.3.1"], "files": {"empty": ""},
               "expect": packet_expect("tcpsyn", target(a(1), 32, chunk1 + chunk2), [chunk1, chunk2], [200, 1], 300, rate={"n": 500, "winMs": 1000, "winNs": 0})})
    # 4". a busy wire: reply-shaped frames keep arriving during the whole run, so the receiver of a pass is inside a read whenever the pass
    # ends (no exit delay at all, a very short one, the default): both passes are sent, the process does not crash (finding F17)
    for dly, ms in (("0s", 0), ("1ms", 1), ("300ms", 300)):
        sc.append({"name": "tcp-chunked-busy-" + dly, "args": ["tcp", "syn", "--json", "-p", ",".join(str(p) for p in ports)] + COMMON + ["--exit-delay", dly, "10.9.3.1"], "files": {"empty": ""},
                   "flood": tcp_reply(a(1), 1005, 0x12), "floodAll": True,
                   "expect": dict(packet_expect("tcpsyn", target(a(1), 32, chunk1 + chunk2), [chunk1, chunk2], [200, 1], ms), kind="packetbusy")})
    sc.append({"name": "busy-wire-exit", "args": ["tcp", "syn", "--json", "-p", "1005"] + COMMON + ["--exit-delay", "300ms", "10.9.3.1"], "files": {"empty": ""},
               "flood": tcp_reply(a(1), 1005, 0x12), "floodAll": True,
               "expect": {"kind": "sigint", "scan": "tcpsyn", "vpn": False, "target": target(a(1), 32, [rng(1005, 1005)])}})
    sc.append({"name": "busy-wire-sigint", "args": ["arp", "--json", "--rate", "50/s", "10.9.3.0/26"], "sigintAfter": 5, "maxMs": 10000,
               "flood": arp_reply(a(5), [2, 0x5a, 9, 9, 9, 5]), "floodAll": True,
               "expect": {"kind": "sigint", "scan": "arp", "target": target(net30, 26)}})
    # 5. arp with a rate limit: coverage, spacing, reply -> record
    sc.append({"name": "arp-rate", "args": ["arp", "--json", "--rate", "200/s", "--exit-delay", "500ms", "10.9.3.0/27"],
               "inject": [{"bytes": arp_reply(a(5), [2, 0x5a, 9, 9, 9, 5]), "afterProbe": 3, "delayMs": 10}, {"bytes": arp_reply([10, 9, 4, 5], [2, 0x5a, 9, 9, 9, 6]), "afterProbe": 3, "delayMs": 20}],
               "expect": packet_expect("arp", target(net30, 27), [[]], [32], 500, rate={"n": 200, "winMs": 1000, "winNs": 0}, srcip=[10, 9, 0, 1], dstmac=[255] * 6)})
    # 6. icmp / udp with rate and exclusion
    sc.append({"name": "icmp-rate-exclude", "args": ["icmp", "--json", "--rate", "100/s", "--exclude", "{dir}/excl"] + COMMON + ["--exit-delay", "500ms", "10.9.3.0/28"],
               "files": {"empty": "", "excl": "# no\n10.9.3.4/30\n10.9.3.9\n"},
               "inject": [{"bytes": icmp_reply(a(1), 0, 0), "afterProbe": 2, "delayMs": 10}, {"bytes": icmp_reply(a(2), 8, 0), "afterProbe": 2, "delayMs": 20}],
               "expect": packet_expect("icmp", target(net30, 28, exclude=[{"ip": [10, 9, 3, 4], "len": 30}, {"ip": [10, 9, 3, 9], "len": 32}]), [[]], [11], 500,
                                       rate={"n": 100, "winMs": 1000, "winNs": 0})})
    sc.append({"name": "udp-subnet", "args": ["udp", "--json", "-p", "53,161"] + COMMON + ["--exit-delay", "500ms", "10.9.3.0/31"], "files": {"empty": ""},
               "inject": [{"bytes": icmp_reply(a(0), 3, 3, 55), "afterProbe": 1, "delayMs": 40},
                          # any ICMP other than an echo request is a reply to a udp scan: time exceeded, echo reply, parameter problem; not an echo request
                          {"bytes": icmp_reply(a(1), 11, 0, 250), "afterProbe": 1, "delayMs": 50}, {"bytes": icmp_reply(a(0), 0, 0, 64), "afterProbe": 1, "delayMs": 60},
                          {"bytes": icmp_reply(a(1), 12, 1, 9), "afterProbe": 1, "delayMs": 70}, {"bytes": icmp_reply(a(1), 8, 0, 64), "afterProbe": 1, "delayMs": 80},
                          {"bytes": icmp_reply([10, 9, 3, 2], 11, 0, 250), "afterProbe": 1, "delayMs": 90}],
               "expect": packet_expect("udp", target(net30, 31, [rng(53, 53), rng(161, 161)]), [[rng(53, 53), rng(161, 161)]], [4], 500)})
    # 6'. non-default probe options through the commands' flag parsing: the frames are still the reference encodings (C05)
    sc.append({"name": "icmp-options", "args": ["icmp", "--json", "--ttl", "5", "--type", "13", "--code", "0", "--ipflags", "df,mf", "--payload", "abc\\x00\\xff"] + COMMON + ["--exit-delay", "300ms", "10.9.3.0/31"],
               "files": {"empty": ""}, "fillOpts": {"ttl": 5, "ipflags": 3, "ipproto": 1, "iplen": 0, "type": 13, "code": 0, "payload": [97, 98, 99, 0, 255], "defaultPayload": False},
               "expect": packet_expect("icmp", target(net30, 31), [[]], [2], 300)})
    sc.append({"name": "udp-options", "args": ["udp", "--json", "-p", "53", "--ttl", "200", "--ipflags", "", "--payload", "\\x01\\x02x"] + COMMON + ["--exit-delay", "300ms", "10.9.3.0/31"],
               "files": {"empty": ""}, "fillOpts": {"ttl": 200, "ipflags": 0, "ipproto": 17, "iplen": 0, "payload": [1, 2, 120]},
               "expect": packet_expect("udp", target(net30, 31, [rng(53, 53)]), [[rng(53, 53)]], [2], 300)})
    # 7. a file of ip/port pairs without -p
    pairs = [{"ip": a(1), "port": 80}, {"ip": a(2), "port": 8080}, {"ip": [10, 9, 7, 7], "port": 22}]
    sc.append({"name": "tcp-file-pairs", "args": ["tcp", "syn", "--json", "-i", "vfw0", "-f", "{dir}/pairs"] + COMMON + ["--exit-delay", "500ms"],
               "files": {"empty": "", "pairs": "".join('{"ip":"%s","port":%d}\n' % (".".join(map(str, p["ip"])), p["port"]) for p in pairs)},
               "inject": [{"bytes": tcp_reply(a(2), 8080, 0x12), "afterProbe": 1, "delayMs": 40}],
               "expect": packet_expect("tcpsyn", target([0, 0, 0, 0], 0, pairs=pairs), [[]], [3], 500, has_net=False)})
    # 8. application scan: subnet x ports on loopback, every server a SOCKS5 proxy
    lo = lambda d: [10, 200, 0, d]
    sc.append({"name": "socks-subnet", "args": ["socks", "--json", "-p", "1080-1081", "-w", "3", "10.200.0.4/30"], "listen": [1080, 1081],
               "expect": {"kind": "app", "scan": "socks", "target": target([10, 200, 0, 4], 30, [rng(1080, 1081)])}})
    # 8'. application scan with an exclusion file: no connection to an excluded address
    sc.append({"name": "socks-exclude", "args": ["socks", "--json", "-p", "1080", "--exclude", "{dir}/sexcl", "10.200.0.16/29"], "listen": [1080], "files": {"sexcl": "10.200.0.20/30\n10.200.0.17\n"},
               "expect": {"kind": "app", "scan": "socks", "target": target([10, 200, 0, 16], 29, [rng(1080, 1080)], exclude=[{"ip": [10, 200, 0, 20], "len": 30}, {"ip": [10, 200, 0, 17], "len": 32}])}})
    # 8". application scan with a rate limit: connection attempts are paced (one probe = one connection for socks)
    sc.append({"name": "socks-rate", "args": ["socks", "--json", "--rate", "100/s", "-w", "50", "-p", "1080", "10.200.0.64/26"], "listen": [1080], "maxMs": 15000,
               "expect": {"kind": "app", "scan": "socks", "target": target([10, 200, 0, 64], 26, [rng(1080, 1080)]), "rate": {"n": 100, "winMs": 1000, "winNs": 0}}})
    # 9. application scan: addresses from standard input x two ports
    sc.append({"name": "socks-stdin-two-ports", "args": ["socks", "--json", "-p", "1080,1081", "-f", "-"], "listen": [1080, 1081],
               "stdin": '{"ip":"10.200.0.9"}\n{"ip":"10.200.0.10"}\n',
               "expect": {"kind": "app", "scan": "socks", "target": target([0, 0, 0, 0], 0, pairs=[{"ip": lo(9), "port": 1080}, {"ip": lo(9), "port": 1081},
                                                                                                      {"ip": lo(10), "port": 1080}, {"ip": lo(10), "port": 1081}])}})
    # 9b. background traffic while the scan starts: frames that are not reply-shaped (source outside the subnet, port outside the ranges)
    # injected continuously from before sx is started until its first probe - they arrive in the window between socket open and filter attach
    sc.append({"name": "attach-window-flood", "args": ["tcp", "fin", "--json", "-p", "80"] + COMMON + ["--exit-delay", "300ms", "10.9.3.0/30"], "files": {"empty": ""},
               "flood": tcp_reply([192, 168, 7, 7], 9999, 0x14),
               "expect": packet_expect("tcpfin", target(net30, 30, [rng(80, 80)]), [[rng(80, 80)]], [4], 300)})
    # 9c. `sx arp --json` output used as the ARP cache of an IP-level scan (stdin), no gateway MAC: probes go to the MAC the ARP scan printed
    # for their own destination; destinations without an entry become errors, not probes
    m1, m2 = [2, 0x5a, 7, 7, 7, 1], [2, 0x5a, 7, 7, 7, 2]
    sc.append({"name": "arp-for-cache", "args": ["arp", "--json", "--exit-delay", "500ms", "10.9.3.0/30"],
               "inject": [{"bytes": arp_reply(a(1), [2, 0x5a, 6, 6, 6, 6]), "afterProbe": 1, "delayMs": 20},      # superseded by the next line for .1
                          {"bytes": arp_reply(a(1), m1), "afterProbe": 1, "delayMs": 60}, {"bytes": arp_reply(a(2), m2), "afterProbe": 1, "delayMs": 80}],
               "expect": packet_expect("arp", target(net30, 30), [[]], [4], 500, srcip=[10, 9, 0, 1], dstmac=[255] * 6)})
    sc.append({"name": "tcp-from-arp-output", "stdinFrom": "arp-for-cache", "args": ["tcp", "syn", "--json", "-p", "80", "--srcip", "10.9.0.77", "--exit-delay", "400ms", "10.9.3.0/30"],
               "expect": dict(packet_expect("tcpsyn", target(net30, 30, [rng(80, 80)], pairs=[{"ip": a(1), "port": 80}, {"ip": a(2), "port": 80}]), [[rng(80, 80)]], [2], 400),
                              dstmacs=[{"ip": a(1), "mac": m1}, {"ip": a(2), "mac": m2}], dstmac=[])})
    # 9d. live mode: complete passes, at least the rescan interval apart, every host printed once however often it answers
    sc.append({"name": "arp-live", "args": ["arp", "--json", "--live", "400ms", "10.9.3.0/30"], "sigintAfter": 14, "maxMs": 12000,
               "inject": [{"bytes": arp_reply(a(1), m1), "afterProbe": 1, "delayMs": 10}, {"bytes": arp_reply(a(1), m1), "afterProbe": 5, "delayMs": 10},
                          {"bytes": arp_reply(a(2), m2), "afterProbe": 6, "delayMs": 10}, {"bytes": arp_reply(a(1), m1), "afterProbe": 9, "delayMs": 10}],
               "expect": {"kind": "live", "scan": "arp", "target": target(net30, 30), "naddr": 4, "intervalUs": 400000, "minPasses": 3}})
    # 9d'. live mode together with --exclude: still repeated passes, over the addresses that are not excluded
    sc.append({"name": "arp-live-exclude", "args": ["arp", "--json", "--live", "400ms", "--exclude", "{dir}/lexcl", "10.9.3.0/29"], "files": {"lexcl": "10.9.3.4/30\n"},
               "sigintAfter": 13, "maxMs": 12000,
               "inject": [{"bytes": arp_reply(a(1), m1), "afterProbe": 1, "delayMs": 10}, {"bytes": arp_reply(a(1), m1), "afterProbe": 6, "delayMs": 10}],
               "expect": {"kind": "live", "scan": "arp", "target": target(net30, 29, exclude=[{"ip": [10, 9, 3, 4], "len": 30}]), "naddr": 4, "intervalUs": 400000, "minPasses": 3}})
    # 9e. raw-IP ("VPN") mode: a tun device has no hardware address; probes are datagrams without Ethernet header, replies likewise
    t = lambda d: [10, 8, 3, d]
    vsrc = [10, 8, 0, 77]
    raw = lambda frame: frame[14:]
    sc.append({"name": "vpn-tcp-fin", "dev": "tun", "args": ["tcp", "fin", "--json", "-p", "80-81", "--srcip", "10.8.0.77", "--exit-delay", "500ms", "10.8.3.0/31"],
               "inject": [{"bytes": raw(tcp_reply(t(1), 80, 0x14, dst=vsrc)), "afterProbe": 1, "delayMs": 40}, {"bytes": raw(tcp_reply(t(0), 82, 0x14, dst=vsrc)), "afterProbe": 1, "delayMs": 50},
                          {"bytes": raw(icmp_reply(t(1), 3, 3, dst=vsrc)), "afterProbe": 1, "delayMs": 60}],
               "expect": dict(packet_expect("tcpfin", target([10, 8, 3, 0], 31, [rng(80, 81)]), [[rng(80, 81)]], [4], 500, srcip=vsrc), vpn=True)})
    sc.append({"name": "vpn-icmp", "dev": "tun", "args": ["icmp", "--json", "--srcip", "10.8.0.77", "--exit-delay", "500ms", "10.8.3.0/30"],
               "inject": [{"bytes": raw(icmp_reply(t(2), 0, 0, 57, dst=vsrc)), "afterProbe": 1, "delayMs": 40}, {"bytes": raw(icmp_reply([10, 8, 9, 9], 0, 0, dst=vsrc)), "afterProbe": 1, "delayMs": 50}],
               "expect": dict(packet_expect("icmp", target([10, 8, 3, 0], 30), [[]], [4], 500, srcip=vsrc), vpn=True)})
    sc.append({"name": "vpn-udp-own-source", "dev": "tun", "args": ["udp", "--json", "-p", "53", "--exit-delay", "400ms", "10.8.3.2"],
               "expect": dict(packet_expect("udp", target(t(2), 32, [rng(53, 53)]), [[rng(53, 53)]], [1], 400, srcip=[10, 8, 0, 1]), vpn=True)})
    # 9f. addresses from standard input x port ranges, with an ARP cache file given (the udp command builds its generator twice)
    pairs = [{"ip": a(d), "port": p} for d in (1, 2, 1) for p in (53, 161)]
    sc.append({"name": "udp-stdin-arpcache", "args": ["udp", "--json", "-p", "53,161", "-i", "vfw0", "-f", "-"] + COMMON + ["--exit-delay", "400ms"], "files": {"empty": ""},
               "stdin": '{"ip":"10.9.3.1"}\n{"ip":"10.9.3.2"}\n{"ip":"10.9.3.1"}\n',
               "expect": packet_expect("udp", target([0, 0, 0, 0], 0, pairs=pairs), [[rng(53, 53), rng(161, 161)]], [6], 400, has_net=False)})
    # 9g. arp with --srcip: sender protocol address is the given one, in a well-formed 28-byte ARP message
    sc.append({"name": "arp-srcip", "args": ["arp", "--json", "--srcip", "10.9.0.99", "--exit-delay", "400ms", "10.9.3.0/30"],
               "inject": [{"bytes": arp_reply(a(2), m2), "afterProbe": 1, "delayMs": 20}, {"bytes": arp_reply(a(2), m1), "afterProbe": 1, "delayMs": 40}],   # two hosts claim .2: two records
               "expect": packet_expect("arp", target(net30, 30), [[]], [4], 400, srcip=[10, 9, 0, 99], dstmac=[255] * 6)})
    # 9h. a reply with IPv4 options and TCP options (a long but well-formed header chain)
    sc.append({"name": "tcp-reply-with-options", "args": ["tcp", "syn", "--json", "-p", "80"] + COMMON + ["--exit-delay", "400ms", "10.9.3.0/31"], "files": {"empty": ""},
               "inject": [{"bytes": tcp_reply_opts(a(1), 80, 0x12, 40, 40), "afterProbe": 1, "delayMs": 30}, {"bytes": tcp_reply_opts(a(0), 80, 0x12, 8, 20), "afterProbe": 1, "delayMs": 40},
                          {"bytes": tcp_reply_opts(a(0), 81, 0x12, 40, 40), "afterProbe": 1, "delayMs": 50}],
               "expect": packet_expect("tcpsyn", target(net30, 31, [rng(80, 80)]), [[rng(80, 80)]], [2], 400)})
    # 9h'. a long reply followed by a frame that ends after the TCP ports (its IPv4 header promises a TCP header that is not there):
    # the second one is not a well-formed reply and yields nothing - in particular not the rest of the frame before it
    long_reply = tcp_reply(a(1), 80, 0x14)
    long_reply = long_reply[:14] + ip4(6, a(1), SRC, long_reply[34:] + [7] * 60)      # the same RST+ACK with 60 bytes of payload behind it
    cut = long_reply_cut = tcp_reply(a(0), 80, 0x14)[:38]
    sc.append({"name": "tcp-fin-truncated-after-long", "args": ["tcp", "fin", "--json", "-p", "80"] + COMMON + ["--exit-delay", "400ms", "10.9.3.0/31"], "files": {"empty": ""},
               "inject": [{"bytes": long_reply, "afterProbe": 1, "delayMs": 30}, {"bytes": cut, "afterProbe": 1, "delayMs": 40}, {"bytes": long_reply, "afterProbe": 1, "delayMs": 50}, {"bytes": cut, "afterProbe": 1, "delayMs": 60}],
               "expect": packet_expect("tcpfin", target(net30, 31, [rng(80, 80)]), [[rng(80, 80)]], [2], 400)})
    # 9i. two default routes: the gateway of the scan interface is the fall-back destination MAC, not the gateway of the best route of the host
    gwa, gwb = [2, 0x5a, 8, 8, 8, 1], [2, 0x5a, 8, 8, 8, 2]
    cache = "".join('{"ip":"%s","mac":"%s"}\n' % (".".join(map(str, ip)), ":".join("%02x" % x for x in mac))
                    for ip, mac in (([10, 8, 0, 254], gwa), ([10, 9, 0, 254], gwb), (a(1), m1)))
    sc.append({"name": "tcp-gateway-of-scan-interface", "args": ["tcp", "syn", "--json", "-p", "80", "-a", "{dir}/cache2", "--srcip", "10.9.0.77", "--exit-delay", "400ms", "10.9.3.0/30"],
               "files": {"cache2": cache}, "routes": [["default", "via", "10.8.0.254", "dev", "vft0", "metric", "100"], ["default", "via", "10.9.0.254", "dev", "vfw0", "metric", "200"]],
               "expect": dict(packet_expect("tcpsyn", target(net30, 30, [rng(80, 80)]), [[rng(80, 80)]], [4], 400, dstmac=gwb), dstmacs=[{"ip": a(1), "mac": m1}])})
    # 9i'. an ARP cache with IPv6 neighbours (low 32 bits = a scanned address; the unspecified address), no --gwmac and no default route:
    # only the address with its own entry is probed, with its own MAC; the others become errors - no neighbour's MAC stands in as gateway
    m6 = [2, 0x5a, 6, 6, 6, 6]
    cache6 = "".join('{"ip":"%s","mac":"%s"}\n' % (ip, ":".join("%02x" % x for x in mac))
                     for ip, mac in (("fe80::a09:302", m6), ("::", m6), ("10.9.3.1", m1), ("2001:db8::a09:301", m6), ("::1", m6)))
    sc.append({"name": "tcp-cache-v6-no-gateway", "args": ["tcp", "syn", "--json", "-p", "80", "-a", "{dir}/cache6", "--srcip", "10.9.0.77", "--exit-delay", "300ms", "10.9.3.0/30"],
               "files": {"cache6": cache6},
               "expect": dict(packet_expect("tcpsyn", target(net30, 30, [], pairs=[{"ip": a(1), "port": 80}]), [[rng(80, 80)]], [1], 300, dstmac=[]), dstmacs=[{"ip": a(1), "mac": m1}])})
    # 9j. application scans over HTTP: every connection goes to a target, whatever the environment or the server says
    hexp = lambda tgt, maxc, nrec: {"kind": "apphttp", "scan": "elastic", "target": tgt, "maxConns": maxc, "nrecords": nrec, "hosts": False}
    proxy = ["HTTP_PROXY=http://10.200.0.99:3128", "http_proxy=http://10.200.0.99:3128", "HTTPS_PROXY=http://10.200.0.99:3128", "https_proxy=http://10.200.0.99:3128", "NO_PROXY=", "no_proxy="]
    sc.append({"name": "elastic-proxy-env", "args": ["elastic", "--json", "-p", "9200", "10.200.0.4/31"], "servers": {"9200": "json", "3128": "json"}, "env": proxy,
               "expect": hexp(target([10, 200, 0, 4], 31, [rng(9200, 9200)]), 3, 2)})
    sc.append({"name": "docker-proxy-env", "args": ["docker", "--json", "--proto", "http", "-p", "2375", "10.200.0.6"], "servers": {"2375": "json", "3128": "json"}, "env": proxy,
               "expect": hexp(target([10, 200, 0, 6], 32, [rng(2375, 2375)]), 5, 1)})
    sc.append({"name": "elastic-redirect", "args": ["elastic", "--json", "-p", "9200", "10.200.0.4"], "servers": {"9200": "redirect:http://10.200.0.77:9201/", "9201": "json"},
               "expect": hexp(target([10, 200, 0, 4], 32, [rng(9200, 9200)]), 3, 0)})
    # a 3xx to another port / scheme of the probed address itself: still not the probed endpoint
    sc.append({"name": "docker-redirect-same-host", "args": ["docker", "--json", "--proto", "http", "-p", "2375", "10.200.0.6"],
               "servers": {"2375": "redirect:http://10.200.0.6:2376/info", "2376": "json"},
               "expect": hexp(target([10, 200, 0, 6], 32, [rng(2375, 2375)]), 5, 0)})
    sc.append({"name": "elastic-redirect-same-host", "args": ["elastic", "--json", "-p", "9200", "10.200.0.4"], "servers": {"9200": "redirect:http://10.200.0.4:9201/", "9201": "json"},
               "expect": hexp(target([10, 200, 0, 4], 32, [rng(9200, 9200)]), 3, 0)})
    sc.append({"name": "docker-redirect", "args": ["docker", "--json", "--proto", "http", "-p", "2375", "10.200.0.6"], "servers": {"2375": "redirect:http://10.200.0.77:2376/info", "2376": "json"},
               "expect": hexp(target([10, 200, 0, 6], 32, [rng(2375, 2375)]), 5, 0)})
    # 9k. Ctrl-C while application probes are in flight against servers that accepted and do not answer
    for cmd, port in ((["elastic"], "9200"), (["docker", "--proto", "http"], "2375"), (["socks"], "1080")):
        sc.append({"name": "sigint-inflight-" + cmd[0], "args": cmd + ["--json", "-p", port, "-t", "9s", "10.200.0.8/30"], "servers": {port: "stall"}, "sigintConnMs": 300, "maxMs": 14000,
                   "expect": {"kind": "sigint", "scan": cmd[0], "target": target([10, 200, 0, 8], 30, [rng(int(port), int(port))])}})
    # 9l. time bound of application probes through the command's own option wiring: every server accepts and stalls, -t 300ms, 4 targets in
    # parallel: connect + at most three data timeouts + exit delay, far below the 2 s default
    sc.append({"name": "socks-timeout-flag", "args": ["socks", "--json", "-p", "1080", "-t", "300ms", "--exit-delay", "100ms", "10.200.0.8/30"], "servers": {"1080": "stall"}, "maxMs": 14000,
               "expect": {"kind": "apptime", "scan": "socks", "target": target([10, 200, 0, 8], 30, [rng(1080, 1080)]), "boundUs": 1700000, "nrecords": 0}})
    sc.append({"name": "elastic-timeout-flag", "args": ["elastic", "--json", "-p", "9200", "-t", "300ms", "--exit-delay", "100ms", "10.200.0.8/30"], "servers": {"9200": "stall"}, "maxMs": 14000,
               "expect": {"kind": "apptime", "scan": "elastic", "target": target([10, 200, 0, 8], 30, [rng(9200, 9200)]), "boundUs": 1700000, "nrecords": 0}})
    sc.append({"name": "docker-timeout-flag", "args": ["docker", "--json", "--proto", "http", "-p", "2375", "-t", "300ms", "--exit-delay", "100ms", "10.200.0.8/30"], "servers": {"2375": "stall"}, "maxMs": 14000,
               "expect": {"kind": "apptime", "scan": "docker", "target": target([10, 200, 0, 8], 30, [rng(2375, 2375)]), "boundUs": 1700000, "nrecords": 0}})
    # 9m. many docker / elastic probes in parallel against distinct servers: every target is contacted, every record names its own target
    sc.append({"name": "docker-parallel", "args": ["docker", "--json", "--proto", "http", "-p", "2375", "-w", "16", "10.200.0.64/26"], "servers": {"2375": "json"},
               "expect": dict(hexp(target([10, 200, 0, 64], 26, [rng(2375, 2375)]), 5, 64), scan="docker", hosts=True)})
    sc.append({"name": "elastic-parallel", "args": ["elastic", "--json", "-p", "9200", "-w", "16", "10.200.0.64/26"], "servers": {"9200": "json"},
               "expect": dict(hexp(target([10, 200, 0, 64], 26, [rng(9200, 9200)]), 3, 64), hosts=True)})
    # 9n. a quiet wire for longer than any poll timeout: no frame matches the filter during a long exit delay; nothing is reported as an error
    sc.append({"name": "quiet-wire", "args": ["icmp", "--json"] + COMMON + ["--exit-delay", "2600ms", "10.9.3.0/31"], "files": {"empty": ""},
               "expect": dict(packet_expect("icmp", target(net30, 31), [[]], [2], 2600), nerr=0)})
    # 9o. an ARP scan on an interface without hardware address: no Ethernet, no ARP - refused, nothing sent
    sc.append({"name": "refuse-arp-on-tun", "dev": "tun", "args": ["arp", "--json", "--exit-delay", "300ms", "10.8.3.0/30"], "maxMs": 6000,
               "expect": {"kind": "refuse", "scan": "arp", "target": target([0, 0, 0, 0], 0)}})
    # 9p. addresses on standard input x more than 200 port ranges: the list is read again for every port of every pass
    sports = list(range(2000, 2201))
    saddrs = [a(d) for d in range(1, 41)]
    spairs = [{"ip": ip, "port": p} for ip in saddrs for p in sports]
    sc.append({"name": "tcp-stdin-chunked", "args": ["tcp", "syn", "--json", "-i", "vfw0", "-f", "-", "-p", ",".join(map(str, sports))] + COMMON + ["--exit-delay", "300ms"], "files": {"empty": ""},
               "stdin": "".join('{"ip":"%s"}\n' % ".".join(map(str, ip)) for ip in saddrs), "maxMs": 20000,
               "expect": packet_expect("tcpsyn", target([0, 0, 0, 0], 0, pairs=spairs), [[rng(p, p) for p in sports[:200]], [rng(p, p) for p in sports[200:]]], [len(saddrs) * 200, len(saddrs)], 300, has_net=False)})
    # 9q. the ARP cache on a standard input that is a regular file, with --gwmac: own entry first, gateway for the rest
    sc.append({"name": "tcp-cache-on-stdin-file", "args": ["tcp", "syn", "--json", "-p", "80", "--srcip", "10.9.0.77", "--gwmac", "02:5a:00:00:00:fe", "--exit-delay", "300ms", "10.9.3.0/30"],
               "stdin": '{"ip":"10.9.3.1","mac":"02:5a:07:07:07:01"}\n{"ip":"10.9.3.2","mac":"02:5a:07:07:07:02"}\n', "stdinFile": True,
               "expect": dict(packet_expect("tcpsyn", target(net30, 30, [rng(80, 80)]), [[rng(80, 80)]], [4], 300), dstmacs=[{"ip": a(1), "mac": m1}, {"ip": a(2), "mac": m2}])})
    # 9r. the interface goes down and comes back during the scan: errors are reported, the scan goes on, a reply after the flap is printed;
    # in live mode the passes keep coming
    sc.append({"name": "link-flap", "args": ["arp", "--json", "--rate", "100/s", "--exit-delay", "500ms", "10.9.3.0/26"], "flapAfter": 10, "flapDownMs": 150, "maxMs": 12000,
               "inject": [{"bytes": arp_reply(a(7), m1), "afterProbe": 45, "delayMs": 20}],
               "expect": dict(packet_expect("arp", target(net30, 26), [[]], [64], 500, srcip=[10, 9, 0, 1], dstmac=[255] * 6), kind="flap")})
    sc.append({"name": "arp-live-flap", "args": ["arp", "--json", "--live", "300ms", "10.9.3.0/30"], "flapAfter": 5, "flapDownMs": 150, "sigintAfter": 21, "maxMs": 15000,
               "expect": {"kind": "liveflap", "scan": "arp", "target": target(net30, 30), "naddr": 4, "intervalUs": 300000, "minPasses": 2}})
    # 9s. standard output that cannot be written (/dev/full), plain output: errors, but the scan ends
    sc.append({"name": "stdout-full", "args": ["arp", "--exit-delay", "400ms", "10.9.3.0/30"], "stdoutTo": "/dev/full", "maxMs": 8000,
               "inject": [{"bytes": arp_reply(a(2), m2), "afterProbe": 1, "delayMs": 20}, {"bytes": arp_reply(a(1), m1), "afterProbe": 1, "delayMs": 40}],
               "expect": dict(packet_expect("arp", target(net30, 30), [[]], [4], 400, srcip=[10, 9, 0, 1], dstmac=[255] * 6), kind="packetbusy")})
    # 9t. a slow reader on standard output and a record far larger than a pipe buffer: the last line is complete when the process exits
    sc.append({"name": "elastic-slow-stdout", "args": ["elastic", "--json", "-p", "9200-9201", "--exit-delay", "50ms", "10.200.0.4"], "servers": {"9200": "json", "9201": "bigjson"}, "slowStdout": True, "maxMs": 20000,
               "expect": dict(hexp(target([10, 200, 0, 4], 32, [rng(9200, 9201)]), 3, 2), hosts=True)})
    # 9u. a reply late in a long exit delay
    sc.append({"name": "late-reply-long-delay", "args": ["tcp", "syn", "--json", "-p", "80"] + COMMON + ["--exit-delay", "3s", "10.9.3.1"], "files": {"empty": ""}, "maxMs": 12000,
               "inject": [{"bytes": tcp_reply(a(1), 80, 0x12), "afterProbe": 1, "delayMs": 2500}],
               "expect": packet_expect("tcpsyn", target(a(1), 32, [rng(80, 80)]), [[rng(80, 80)]], [1], 3000)})
    # 9v. a rate below one packet per second
    sc.append({"name": "arp-subpps-rate", "args": ["arp", "--json", "--rate", "9/10s", "--exclude", "{dir}/rexcl", "--exit-delay", "300ms", "10.9.3.0/28"], "files": {"rexcl": "10.9.3.14/31\n"}, "maxMs": 30000,
               "expect": packet_expect("arp", target(net30, 28, exclude=[{"ip": [10, 9, 3, 14], "len": 31}]), [[]], [14], 300, rate={"n": 9, "winMs": 10000, "winNs": 0}, srcip=[10, 9, 0, 1], dstmac=[255] * 6)})
    # 9w. one processor: the number of packet builders follows the number of processors
    sc.append({"name": "arp-one-cpu", "args": ["arp", "--json", "--exit-delay", "300ms", "10.9.3.0/28"], "env": ["GOMAXPROCS=1"],
               "inject": [{"bytes": arp_reply(a(2), m2), "afterProbe": 1, "delayMs": 20}],
               "expect": packet_expect("arp", target(net30, 28), [[]], [16], 300, srcip=[10, 9, 0, 1], dstmac=[255] * 6)})
    sc.append({"name": "tcp-one-cpu", "args": ["tcp", "syn", "--json", "-p", "80-83"] + COMMON + ["--exit-delay", "300ms", "10.9.3.0/30"], "files": {"empty": ""}, "env": ["GOMAXPROCS=1"],
               "expect": packet_expect("tcpsyn", target(net30, 30, [rng(80, 83)]), [[rng(80, 83)]], [16], 300)})
    # 9x. the exclusion list read from something that is not a regular file (/dev/stdin on a pipe)
    sc.append({"name": "arp-exclude-from-pipe", "args": ["arp", "--json", "--exclude", "/dev/stdin", "--exit-delay", "300ms", "10.9.3.0/29"], "stdin": "# not these\n10.9.3.4/30\n",
               "expect": packet_expect("arp", target(net30, 29, exclude=[{"ip": [10, 9, 3, 4], "len": 30}]), [[]], [4], 300, srcip=[10, 9, 0, 1], dstmac=[255] * 6)})
    sc.append({"name": "socks-exclude-from-pipe", "args": ["socks", "--json", "-p", "1080", "--exclude", "/dev/stdin", "10.200.0.16/29"], "listen": [1080], "stdin": "10.200.0.20/30\n",
               "expect": {"kind": "app", "scan": "socks", "target": target([10, 200, 0, 16], 29, [rng(1080, 1080)], exclude=[{"ip": [10, 200, 0, 20], "len": 30}])}})
    # 9x'. an exclusion file far larger than a read buffer, the relevant lines first
    bigex = "10.9.3.4/30\n10.9.3.9\n" + "".join("203.0.%d.%d/32\n" % (i // 250, i % 250 + 1) for i in range(1400))
    sc.append({"name": "arp-big-exclude-file", "args": ["arp", "--json", "--exclude", "{dir}/bigex", "--exit-delay", "300ms", "10.9.3.0/28"], "files": {"bigex": bigex},
               "expect": packet_expect("arp", target(net30, 28, exclude=[{"ip": [10, 9, 3, 4], "len": 30}, {"ip": [10, 9, 3, 9], "len": 32}]), [[]], [11], 300, srcip=[10, 9, 0, 1], dstmac=[255] * 6)})
    # 9y. more answering endpoints than the process may hold descriptors: every probe gives its connections back
    sc.append({"name": "docker-fd-limit", "args": ["docker", "--json", "--proto", "http", "-p", "2375", "-w", "8", "10.200.0.0/25"], "servers": {"2375": "jsonka"}, "ulimitN": 64, "maxMs": 30000,
               "expect": dict(hexp(target([10, 200, 0, 0], 25, [rng(2375, 2375)]), 5, 128), scan="docker", hosts=True)})
    sc.append({"name": "elastic-fd-limit", "args": ["elastic", "--json", "-p", "9200", "-w", "8", "10.200.0.0/25"], "servers": {"9200": "jsonka"}, "ulimitN": 64, "maxMs": 30000,
               "expect": dict(hexp(target([10, 200, 0, 0], 25, [rng(9200, 9200)]), 3, 128), hosts=True)})
    # 10. targets that are not IPv4 are refused before anything is sent
    for i, t in enumerate(["::1", "::ffff:10.9.3.1/126", "fe80::1/64", "10.9.3.1/33", "10.9.3"]):
        sc.append({"name": "refuse-%d" % i, "args": ["tcp", "syn", "--json", "-p", "80"] + COMMON + ["--exit-delay", "300ms", t], "files": {"empty": ""}, "maxMs": 6000,
                   "expect": {"kind": "refuse", "scan": "tcpsyn", "target": target([0, 0, 0, 0], 0)}})
    sc.append({"name": "refuse-arp-v6", "args": ["arp", "--json", "::1/120"], "maxMs": 6000, "expect": {"kind": "refuse", "scan": "arp", "target": target([0, 0, 0, 0], 0)}})
    # 11. Ctrl-C in the middle of a rate-limited scan, and during the exit delay
    sc.append({"name": "sigint-mid-scan", "args": ["arp", "--json", "--rate", "50/s", "10.9.3.0/26"], "sigintAfter": 5, "maxMs": 10000,
               "expect": dict(packet_expect("arp", target(net30, 26), [[]], [64], 300, srcip=[10, 9, 0, 1], dstmac=[255] * 6), kind="packetsigint")})
    odd = list(range(3001, 15003, 2))          # 6001 single-port ranges: 31 passes
    sc.append({"name": "sigint-chunked", "args": ["tcp", "syn", "--json", "--rate", "200/s", "-p", ",".join(map(str, odd))] + COMMON + ["10.9.3.1"], "files": {"empty": ""}, "sigintAfter": 5, "maxMs": 12000,
               "expect": dict(packet_expect("tcpsyn", target(a(1), 32, [rng(p, p) for p in odd]), [[rng(p, p) for p in odd[i:i + 200]] for i in range(0, len(odd), 200)],
                                     [len(odd[i:i + 200]) for i in range(0, len(odd), 200)], 300), kind="packetsigint")})
    sc.append({"name": "sigint-in-exit-delay", "args": ["arp", "--json", "--exit-delay", "8s", "10.9.3.0/30"], "sigintAfter": 4, "maxMs": 10000,
               "expect": dict(packet_expect("arp", target(net30, 30), [[]], [4], 8000, srcip=[10, 9, 0, 1], dstmac=[255] * 6), kind="packetsigint")})
    if tier == "thorough":
        sc.append({"name": "arp-big", "args": ["arp", "--json", "--exit-delay", "500ms", "10.9.0.0/20"],
                   "expect": packet_expect("arp", target([10, 9, 0, 0], 20), [[]], [4096], 500, srcip=[10, 9, 0, 1], dstmac=[255] * 6)})
        ports = list(range(2000, 2401))
        ch = [[rng(p, p) for p in ports[i:i + 200]] for i in range(0, 401, 200)]
        sc.append({"name": "udp-chunked-401", "args": ["udp", "--json", "-p", ",".join(map(str, ports))] + COMMON + ["--exit-delay", "400ms", "10.9.3.1"], "files": {"empty": ""},
                   "expect": packet_expect("udp", target(a(1), 32, [r for c in ch for r in c]), ch, [200, 200, 1], 400)})
        # a reply after more than ten seconds of silence inside a 13 s exit delay (an idle AF_PACKET socket times out every 100 ms:
        # more than a hundred transient read failures in a row before the frame)
        sc.append({"name": "late-reply-after-long-silence", "args": ["tcp", "syn", "--json", "-p", "80"] + COMMON + ["--exit-delay", "13s", "10.9.3.1"], "files": {"empty": ""}, "maxMs": 30000,
                   "inject": [{"bytes": tcp_reply(a(1), 80, 0x12), "afterProbe": 1, "delayMs": 11500}],
                   "expect": packet_expect("tcpsyn", target(a(1), 32, [rng(80, 80)]), [[rng(80, 80)]], [1], 13000)})
    for i, s in enumerate(sc):
        s["id"] = i + 1
        s.setdefault("inject", [])
    return sc


DEFAULT_OPTS = {"tcpsyn": ("tcp", {"flags": 0x002}), "tcpfin": ("tcp", {"flags": 0x001}), "tcpflags": ("tcp", {"flags": 0x011}),
                "tcpnull": ("tcp", {"flags": 0x000}), "tcpxmas": ("tcp", {"flags": 0x029}),
                "udp": ("udp", {"ttl": 64, "ipflags": 2, "ipproto": 17, "iplen": 0, "payload": []}),
                "icmp": ("icmp", {"ttl": 64, "ipflags": 2, "ipproto": 1, "iplen": 0, "type": 8, "code": 0, "payload": [], "defaultPayload": True}),
                "arp": ("arp", {})}


def fill_events(events):
    """every probe captured on the wire as a Fill event of WireTrace: the request is (expected source MAC / IP, expected destination MAC,
    the destination address / port the frame itself names), the options are the defaults of the command"""
    out = []
    for e in events:
        x = e["expect"]
        if x["kind"] != "packet" or x["scan"] not in DEFAULT_OPTS or "--flags" in e["args"] and x["scan"] != "tcpflags":
            continue
        kind, opts = DEFAULT_OPTS[x["scan"]]
        opts = e.get("fillOpts") or opts
        off = 0 if x["vpn"] else 14
        for k, p in enumerate(e["probes"]):
            b = p["bytes"]
            if kind == "arp":
                dstip, dport = b[38:42], 0
            else:
                dstip = b[off + 16:off + 20]
                dport = 0 if kind == "icmp" or len(b) < off + 24 else b[off + 22] * 256 + b[off + 23]
            dm = x["dstmac"]
            for d in x["dstmacs"]:
                if d["ip"] == dstip:
                    dm = d["mac"]
            out.append({"ev": "Fill", "id": len(out) + 1, "kind": kind, "vpn": x["vpn"], "opts": opts, "run": e["name"], "bytes": b,
                        "req": {"dstmac": dm, "srcmac": x["srcmac"], "srcip": x["srcip"], "dstip": dstip, "dport": dport}})
    return out


def generated_scenarios(ctx, sample):
    """two-pass scans (201 port ranges, paced) under every stimulus ScanRunGen enumerates: frames of three kinds arriving in five phases"""
    import random
    out = os.path.join(ctx.scratch, "scanrun-gen.ndjson")
    r = ctx.tlc("ScanRunGen", env={"VF_OUT": out}, workers=1, timeout=300)
    if not r.no_error:
        raise vf.Inconclusive("ScanRunGen failed:\n" + r.out[-2000:])
    stim = [json.loads(l) for l in open(out)]
    stim.sort(key=lambda s: json.dumps(s, sort_keys=True))
    if sample and len(stim) > sample:
        stim = random.Random(ctx.seed * 31 + 5).sample(stim, sample)
    a1 = [10, 9, 3, 1]
    ports = list(range(1000, 1201))
    chunk1, chunk2 = [rng(p, p) for p in ports[:200]], [rng(p, p) for p in ports[200:]]
    frame = {"reply1": tcp_reply(a1, 1005, 0x12), "reply2": tcp_reply(a1, 1200, 0x12), "unshaped": tcp_reply(a1, 1005, 0x14)}
    slot = {"send1": (50, 0), "listen1early": (200, 120), "listen1late": (200, 560), "listen2early": (201, 120), "listen2late": (201, 560)}
    sc = []
    for i, s in enumerate(stim):
        inj = [{"bytes": frame[f["kind"]], "afterProbe": slot[f["slot"]][0], "delayMs": slot[f["slot"]][1]} for f in s["frames"]]
        sc.append({"name": "gen-%03d-%s" % (i, "+".join("%s@%s" % (f["kind"], f["slot"]) for f in s["frames"]) or "none"),
                   "args": ["tcp", "syn", "--json", "--rate", "400/s", "-p", ",".join(str(p) for p in ports)] + COMMON + ["--exit-delay", "700ms", "10.9.3.1"], "files": {"empty": ""},
                   "inject": inj, "expect": packet_expect("tcpsyn", target(a1, 32, chunk1 + chunk2), [chunk1, chunk2], [200, 1], 700, rate={"n": 400, "winMs": 1000, "winNs": 0})})
    return sc


def decode_record(scan, line):
    """projection of one stdout line to the record fields the specification talks about"""
    rec = {"ip": [0, 0, 0, 0], "port": 0, "flags": [], "mac": [], "ttl": 0, "type": 0, "code": 0, "raw": line[:200]}
    try:
        d = json.loads(line)
    except Exception:
        rec["ip"] = [-1, -1, -1, -1]
        return rec
    try:
        rec["ip"] = [int(x) for x in d.get("ip", "0.0.0.0").split(".")]
    except Exception:
        rec["ip"] = [-1, -1, -1, -1]
    rec["port"] = d.get("port", 0)
    if isinstance(d.get("host"), str):          # elastic / docker records name their target as [tcp://]a.b.c.d:port
        try:
            h, prt = d["host"].replace("tcp://", "").rsplit(":", 1)
            rec["ip"], rec["port"] = [int(x) for x in h.split(".")], int(prt)
        except Exception:
            rec["ip"] = [-1, -1, -1, -1]
    rec["flags"] = list(d.get("flags", ""))
    if "mac" in d:
        try:
            rec["mac"] = [int(x, 16) for x in d["mac"].split(":")]
        except Exception:
            rec["mac"] = [-1]
    rec["ttl"] = d.get("ttl", 0)
    if isinstance(d.get("icmp"), dict):
        rec["type"], rec["code"] = d["icmp"].get("type", 0), d["icmp"].get("code", 0)
    return rec


def available():
    try:
        p = subprocess.run(["unshare", "-n", "true"], stdout=subprocess.PIPE, stderr=subprocess.PIPE, timeout=10)
        return p.returncode == 0
    except Exception:
        return False


def run_wire(ctx, select=None, label="wire", focus="all", extra=None):
    """runs the scenarios (optionally filtered by name predicate) and validates them; returns (runs, rejected)"""
    if not available():
        ctx.notes.append("socket-level tier skipped: unshare -n is not permitted here")
        ctx.step(label, skipped=True)
        return 0, []
    allsc = scenarios(ctx.tier)
    if extra:
        for i, s in enumerate(extra):
            s["id"] = len(allsc) + i + 1
            s.setdefault("inject", [])
        allsc = allsc + extra
    sc = [s for s in allsc if select is None or select(s)]
    need = {s["stdinFrom"] for s in sc if s.get("stdinFrom")}
    sc += [s for s in allsc if s["name"] in need and s not in sc]
    binary = ctx.go_build_test("./command")
    sx = ctx.build_sx()
    import concurrent.futures

    def phase(part_all, tag):
        groups = 4
        envs = []
        for k in range(groups):
            part = part_all[k::groups]
            if not part:
                continue
            sp = os.path.join(ctx.scratch, "%s-%s-scen-%d.ndjson" % (label, tag, k))
            vf.write_ndjson(sp, part)
            envs.append({"VF_SCENARIOS": sp, "VF_OUT": os.path.join(ctx.scratch, "%s-%s-out-%d.ndjson" % (label, tag, k)), "VF_SX": sx})
        if not envs:
            return []
        with concurrent.futures.ThreadPoolExecutor(max_workers=len(envs)) as ex:
            res = list(ex.map(lambda e: ctx.go_run_test(binary, "^TestVfWire$", e, 900, True), envs))
        evs = []
        for (rc, out), e in zip(res, envs):
            if rc != 0:
                raise vf.Inconclusive("virtual-wire harness failed:\n" + out[-3000:])
            evs += vf.read_ndjson(e["VF_OUT"])
        return evs
    events = phase([s for s in sc if not s.get("stdinFrom")], "p1")
    second = [s for s in sc if s.get("stdinFrom")]
    for s in second:        # the standard input of these runs is the standard output of an earlier one
        src = next(e for e in events if e["name"] == s["stdinFrom"])
        s["stdin"] = "".join(l + "\n" for l in src["stdout"])
    events += phase(second, "p2")
    lossy = [e["name"] for e in events if e["drops"] != 0]
    if lossy:
        raise vf.Inconclusive("the capturing socket of the harness lost frames in three attempts of %s: nothing can be said about these runs" % lossy)
    byid = {s["id"]: s for s in sc}
    for e in events:
        s = byid[e["id"]]
        e["expect"] = s["expect"]
        e["fillOpts"] = s.get("fillOpts") or {}
        e["records"] = [decode_record(s["expect"]["scan"], l) for l in e["stdout"]]
        e["conns"] = [{"ip": [int(x) for x in k.split(":")[0].split(".")], "port": int(k.split(":")[1]), "n": v} for k, v in sorted(e["conns"].items())]
    ctx.cov["traces_validated_against_impl"] += len(events)
    ctx.count(len(events), [("wire", e["name"]) for e in events])
    ctx.wire_events = events
    rejected = []
    rest = events
    while rest:
        p = os.path.join(ctx.scratch, label + "-check.ndjson")
        vf.write_ndjson(p, rest)
        ok, info = ctx.tlc_trace("WireRunTrace", p, timeout=1800, env={"VF_FOCUS": focus})
        if ok:
            probe = next((e for e in rest if e["expect"]["kind"] == "packet" and 2 <= len(e["probes"]) <= 300 and e["exit"] == 0), None)
            if probe is not None and focus in ("coverage", "all"):
                vf.selftest_event(ctx, "WireRunTrace", dict(probe, probes=probe["probes"][1:]), "first probe of an accepted run removed", env={"VF_FOCUS": "coverage"})
            break
        bad = rest[info["index"] - 1]
        bad["_clause"] = info["event"]
        bad["_focus"] = focus
        rejected.append(bad)
        rest = rest[:info["index"] - 1] + rest[info["index"]:]
    ctx.step(label, runs=len(events), rejected=[b["name"] for b in rejected])
    for e in events[:1]:
        ctx.sample({k: (v if k not in ("probes", "injected") else len(v)) for k, v in e.items() if not k.startswith("_")})
    return len(events), rejected


def scanrun_events(e):
    """one run as the time-ordered event sequence ScanRunTrace consumes"""
    evs = [{"ev": "Probe", "t": p["t"], "bytes": p["bytes"]} for p in e["probes"]] + \
          [{"ev": "Inject", "t": i["t"], "bytes": i["bytes"]} for i in e["injected"] if i["done"]]
    evs.sort(key=lambda v: (v["t"], v["ev"] == "Probe"))
    if e["sigintT"] > 0:
        evs.append({"ev": "Sigint", "t": e["sigintT"]})
        evs.sort(key=lambda v: (v["t"], v["ev"] == "Probe"))
    return [{"ev": "Start", "t": 0, "name": e["name"], "expect": e["expect"]}] + evs + [{"ev": "Exit", "t": e["exitT"], "code": e["exit"], "records": e["records"]}]


def scanrun_validate(ctx, pid, label="scanrun"):
    """validates every clean packet run of the last run_wire call against the chunk-loop state machine ScanRun (one TLC process per run)"""
    import concurrent.futures
    runs = []
    for e in getattr(ctx, "wire_events", []):
        x = e["expect"]
        if x["kind"] not in ("packet", "packetsigint") or e.get("floodN") or e["panic"] or e["killed"] or e["drops"] or len(e["probes"]) > 600:
            continue
        keys = [(tuple(p["ip"]), p["port"]) for p in x["target"]["pairs"]]
        if len(keys) != len(set(keys)) or x["dstmacs"]:          # multiplicities / error-replaced probes are C01's and C11's business
            continue
        rs = sorted((r["lo"], r["hi"]) for r in x["target"]["ranges"])
        if any(rs[i][1] >= rs[i + 1][0] for i in range(len(rs) - 1)):   # overlapping port ranges: probes repeat by design
            continue
        runs.append(e)

    def one(e):
        p = os.path.join(ctx.scratch, "%s-%s.ndjson" % (label, e["name"]))
        vf.write_ndjson(p, scanrun_events(e))
        return ctx.tlc_trace("ScanRunTrace", p, timeout=900)
    with concurrent.futures.ThreadPoolExecutor(max_workers=8) as ex:
        res = list(ex.map(one, runs))
    first = next((e for e, (ok, _i) in zip(runs, res) if ok and len(e["probes"]) >= 2), None)
    if first is not None and os.environ.get("VF_SELFTEST", "1") == "1" and "ScanRunTrace" not in getattr(ctx, "_selftested", set()):
        ev = scanrun_events(dict(first, probes=[first["probes"][0]] + first["probes"]))      # a probe sent twice (valid also for runs with a Ctrl-C)
        p = os.path.join(ctx.scratch, "%s-selftest.ndjson" % label)
        vf.write_ndjson(p, ev)
        ok, _ = ctx.tlc_trace("ScanRunTrace", p, timeout=900)
        if ok:
            raise vf.Inconclusive("binding self-test failed: ScanRunTrace accepted a run with its first probe repeated")
        ctx.step("selftest-ScanRunTrace", corrupted="first probe of an accepted run repeated", rejected=True)
        ctx._selftested = getattr(ctx, "_selftested", None) or set()
        ctx._selftested.add("ScanRunTrace")
    bad = []
    for e, (ok, info) in zip(runs, res):
        if not ok:
            bad.append(e["name"])
            ctx.violation("%s:scanrun:%s" % (pid, e["name"]), "sx %s on the virtual wire does not follow the chunk-loop model: ScanRunTrace rejects event %s %s (probes=%d stdout=%s)" %
                          (" ".join(e["args"])[:160], info["index"], info["event"][:160], len(e["probes"]), e["stdout"][:4]),
                          replay={"property": pid, "trace_spec": "ScanRunTrace", "run": scanrun_events(e)})
    ctx.cov["traces_validated_against_impl"] += len(runs)
    ctx.step(label, runs=len(runs), rejected=bad)
    return len(runs), bad


def report(ctx, pid, rejected, names=None):
    for b in rejected:
        if names is not None and not names(b):
            continue
        brief = {k: (v if k not in ("probes", "injected", "expect") else "(%d)" % len(v) if isinstance(v, list) else "...") for k, v in b.items() if not k.startswith("_")}
        name = b["name"]
        if name == "attach-window-flood" and b["records"] and all(r["ip"] == [192, 168, 7, 7] and r["port"] == 9999 for r in b["records"]):
            name = "attach-window-flood:only-flood-frames-reported"
        ctx.violation("%s:wire:%s" % (pid, name), "sx %s on the virtual wire: %s; exit=%s probes=%d stdout=%s stderr=%s" %
                      (" ".join(b["args"])[:160], b["_clause"][:200], b["exit"], len(b["probes"]), b["stdout"][:6], b["stderr"][:3]),
                      replay={"property": pid, "trace_spec": "WireRunTrace", "env": {"VF_FOCUS": b.get("_focus", "all")}, "run": [{k: v for k, v in b.items() if not k.startswith("_")}], "brief": brief})
