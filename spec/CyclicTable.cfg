SPECIFICATION Spec
CONSTRAINT HighWater
POSTCONDITION Accepted
CHECK_DEADLOCK FALSE
