------------------------------ MODULE AppScanObs ------------------------------
(* Seam-level behaviour of an application scan (socks / docker / elastic):        *)
(*   RequestGenerator -> W x GenericEngine.worker { [limiter.Take] Scanner.Scan } *)
(*   -> resultChan (two stages) -> logger.LogResults -> io.Writer ;               *)
(*   errors -> errc -> runner -> logger.Error ; startScanEngine returns.          *)
(* Observed through a recording RequestGenerator, Limiter, Scanner, Logger and    *)
(* io.Writer around the real GenericEngine, resultChan, startScanEngine, logger.  *)
EXTENDS Integers, FiniteSets, Sequences
CONSTANTS R
Id == 1..R
Kind == {"hit", "miss", "fail", "reqerr"}
VARIABLES total, nw,
          gen,                         \* requests generated so far
          kHit, kMiss, kFail, kReqErr, \* what each generated request is (decided by the environment)
          busy,                        \* probes in progress
          ended,                       \* probes that have returned
          printed,                     \* ids with an output line
          errs,                        \* ids with a logged error
          done, returned, cancelled,
          exact,                       \* the exit delay is long enough for the logger to drain (C08's proviso)
          limited, charged
avars == <<total, nw, gen, kHit, kMiss, kFail, kReqErr, busy, ended, printed, errs, done, returned, cancelled, exact, limited, charged>>

AInitRun(n, w, ex, lim) ==
    /\ total = n /\ nw = w /\ gen = 0 /\ kHit = {} /\ kMiss = {} /\ kFail = {} /\ kReqErr = {}
    /\ busy = {} /\ ended = {} /\ printed = {} /\ errs = {}
    /\ done = FALSE /\ returned = FALSE /\ cancelled = FALSE /\ exact = ex /\ limited = lim /\ charged = 0
AInit == \E w \in 1..R, ex \in BOOLEAN : AInitRun(R, w, ex, FALSE)

Gen(i, k) == /\ i = gen + 1 /\ i <= total /\ gen' = i
             /\ kHit' = IF k = "hit" THEN kHit \cup {i} ELSE kHit
             /\ kMiss' = IF k = "miss" THEN kMiss \cup {i} ELSE kMiss
             /\ kFail' = IF k = "fail" THEN kFail \cup {i} ELSE kFail
             /\ kReqErr' = IF k = "reqerr" THEN kReqErr \cup {i} ELSE kReqErr
             /\ UNCHANGED <<total, nw, busy, ended, printed, errs, done, returned, cancelled, exact, limited, charged>>
\* the limiter is charged once per probe started, before it starts
Take == /\ limited /\ charged < nw /\ charged' = charged + 1
        /\ UNCHANGED <<total, nw, gen, kHit, kMiss, kFail, kReqErr, busy, ended, printed, errs, done, returned, cancelled, exact, limited>>
\* every generated target is probed at most once, by one of W workers, never an error request, never after completion
ScanBegin(i) == /\ i <= gen /\ i \notin kReqErr /\ i \notin (busy \cup ended) /\ ~done /\ ~returned
                /\ Cardinality(busy) < nw
                /\ (limited => charged > 0) /\ charged' = IF limited THEN charged - 1 ELSE charged
                /\ busy' = busy \cup {i}
                /\ UNCHANGED <<total, nw, gen, kHit, kMiss, kFail, kReqErr, ended, printed, errs, done, returned, cancelled, exact, limited>>
KindOf(i) == IF i \in kHit THEN "hit" ELSE IF i \in kMiss THEN "miss" ELSE IF i \in kFail THEN "fail" ELSE "reqerr"
ScanEnd(i, o) == /\ i \in busy /\ o = KindOf(i) /\ busy' = busy \ {i} /\ ended' = ended \cup {i}
                 /\ UNCHANGED <<total, nw, gen, kHit, kMiss, kFail, kReqErr, printed, errs, done, returned, cancelled, exact, limited, charged>>
\* one output line per detected service, only for probes that detected one, never after the scan call returned
Line(i) == /\ i \in ended /\ i \in kHit /\ i \notin printed /\ ~returned /\ printed' = printed \cup {i}
           /\ UNCHANGED <<total, nw, gen, kHit, kMiss, kFail, kReqErr, busy, ended, errs, done, returned, cancelled, exact, limited, charged>>
\* one error record per failed probe and per error request
ErrLogged(i) == /\ i <= gen /\ (i \in kReqErr \/ (i \in ended /\ i \in kFail)) /\ i \notin errs /\ ~returned
                /\ errs' = errs \cup {i}
                /\ UNCHANGED <<total, nw, gen, kHit, kMiss, kFail, kReqErr, busy, ended, printed, done, returned, cancelled, exact, limited, charged>>
Settled == gen = total /\ (1..total) \subseteq (kReqErr \cup ended)
\* completion is signalled only after all probes have finished
DoneSeen == /\ ~done /\ busy = {} /\ (cancelled \/ Settled) /\ done' = TRUE
            /\ UNCHANGED <<total, nw, gen, kHit, kMiss, kFail, kReqErr, busy, ended, printed, errs, returned, cancelled, exact, limited, charged>>
\* the scan call returns: no probe in flight; if it was not cancelled from outside (and the exit delay was long
\* enough) every detected service has been printed and every failure logged
Returned == /\ ~returned /\ busy = {} /\ (cancelled \/ Settled) /\ returned' = TRUE
            /\ ((~cancelled /\ exact) => printed = kHit)
            /\ (~cancelled => errs = kReqErr \cup kFail)        \* failures are logged before the call returns, whatever the exit delay
            /\ UNCHANGED <<total, nw, gen, kHit, kMiss, kFail, kReqErr, busy, ended, printed, errs, done, cancelled, exact, limited, charged>>
Cancel == /\ ~cancelled /\ cancelled' = TRUE
          /\ UNCHANGED <<total, nw, gen, kHit, kMiss, kFail, kReqErr, busy, ended, printed, errs, done, returned, exact, limited, charged>>
ANext == \/ \E i \in Id, k \in Kind : Gen(i, k) \/ ScanEnd(i, k)
         \/ \E i \in Id : ScanBegin(i) \/ Line(i) \/ ErrLogged(i)
         \/ DoneSeen \/ Returned \/ Cancel \/ Take
ASpec == AInit /\ [][ANext]_avars
(* C08 on observable state *)
OnlyHitsPrinted == printed \subseteq (kHit \cap ended)
OnlyFailuresLogged == errs \subseteq (kReqErr \cup (kFail \cap ended))
ExactAtReturn == (returned /\ ~cancelled /\ exact) => (printed = kHit /\ errs = kReqErr \cup kFail /\ ended = (1..total) \ kReqErr)
ErrorsAtReturn == (returned /\ ~cancelled) => errs = kReqErr \cup kFail
===============================================================================
