//go:build verif

package elastic

// C10 harness (elastic): the real elastic.NewScanner(proto, WithDataTimeout).Scan against the scripted server.

import (
	"context"
	"encoding/json"
	"fmt"
	"net"
	"os"
	"testing"
	"time"

	"github.com/v-byte-cpu/sx/pkg/scan"
)

type vfProbeScen struct {
	Probe string `json:"probe"`
	Ping  string `json:"ping"`
	R1    string `json:"r1"`
	R2    string `json:"r2"`
}

const vfT = 300 * time.Millisecond

func TestVfProbe(t *testing.T) {
	out := vfOpenOut(t, "VF_OUT")
	defer out.close()
	srvs := map[string]*vfHTTPSrv{"http": vfNewHTTPSrv(false, 20*vfT), "https": vfNewHTTPSrv(true, 20*vfT)}
	l2, _ := net.Listen("tcp4", "127.0.0.1:0")
	closedPort := l2.Addr().(*net.TCPAddr).Port
	l2.Close()
	n := 0
	vfReadNDJSON(t, os.Getenv("VF_SCENARIOS"), func(raw json.RawMessage) {
		var sc vfProbeScen
		if err := json.Unmarshal(raw, &sc); err != nil {
			t.Fatal(err)
		}
		if sc.Probe != "elastic" {
			return
		}
		for _, proto := range []string{"http", "https"} {
			srv := srvs[proto]
			port := srv.port()
			r1 := sc.R1
			if r1 == "refuse" {
				port = closedPort
			}
			if r1 == "tlsfail" {
				if proto == "http" {
					continue
				}
				port = srvs["http"].port() // a plain-text server behind an https probe
				srvs["http"].set(func(m, p string) string { return "object" })
			}
			srv.set(func(m, p string) string {
				if p == "/" {
					return r1
				}
				return sc.R2
			})
			s := NewScanner(proto, WithDataTimeout(vfT))
			t0 := time.Now()
			res, err := s.Scan(context.Background(), &scan.Request{DstIP: net.IPv4(127, 0, 0, 1).To4(), DstPort: uint16(port)})
			dur := time.Since(t0)
			ev := map[string]interface{}{"ev": "Probe", "probe": "elastic", "proto": proto, "ping": "na", "r1": sc.R1, "r2": sc.R2, "durMs": int(dur / time.Millisecond),
				"T": int(vfT / time.Millisecond), "target": fmt.Sprintf("127.0.0.1:%d", port), "recHost": "", "recProto": "", "recScan": "", "infoIsObject": false, "reqs": srv.requests()}
			switch {
			case err != nil:
				ev["result"] = "error"
				ev["errText"] = err.Error()
			case res == nil:
				ev["result"] = "none"
			default:
				ev["result"] = "hit"
				b, _ := res.MarshalJSON()
				var rec struct {
					Scan  string          `json:"scan"`
					Proto string          `json:"proto"`
					Host  string          `json:"host"`
					Info  json.RawMessage `json:"info"`
				}
				json.Unmarshal(b, &rec)
				ev["recHost"], ev["recProto"], ev["recScan"] = rec.Host, rec.Proto, rec.Scan
				ev["infoIsObject"] = len(rec.Info) > 0 && rec.Info[0] == '{'
			}
			out.write([]map[string]interface{}{ev})
			n++
		}
	})
	fmt.Printf("VF_RUNS=%d\n", n)
}
