"""Gate-driven replay of TLC-generated schedules through the real generator / merger / sender goroutines (C07, C12).

spec/PacketScanSched.tla   behaviours of the goroutine-level model PacketScan, simulated by TLC, one JSON schedule per behaviour
harness TestVfGate         the director: gate hooks of /repo (build tag verif) park every goroutine; one goroutine at a time is
                           released in the order of the schedule, each step is logged
spec/PacketScanObsTrace    the seam events of every replayed run must be a behaviour of PacketScanObs  -> verdict (C07 clauses)
spec/PacketScanL1Trace     every logged step must be the PacketScan action between its two program points -> conformance of the
                           code to the goroutine-level model; a mismatch here alone is model drift (inconclusive), not a violation
"""
import json
import os
import re
import vf

SCHED_CFG = """SPECIFICATION SSpec
CONSTANTS R = %(R)d W = %(W)d NBuf = %(NB)d CapReq = 1 CapOut = 100 CapMerged = %(CM)d CapErr = 100 AllowCancel = %(C)s Bug = "none"
INVARIANTS Emit
CHECK_DEADLOCK FALSE
"""
L1_CFG = """SPECIFICATION TSpec
CONSTANTS R = %(R)d W = %(W)d NBuf = %(NB)d CapReq = 1 CapOut = 100 CapMerged = %(CM)d CapErr = 100 AllowCancel = TRUE Bug = "none"
CONSTRAINT HighWater
INVARIANTS WireFaithful WireNoDup NoCancelComplete DoneAfterLastWrite ErrorsNeverInvented
POSTCONDITION TraceAccepted
CHECK_DEADLOCK FALSE
"""


ALL_STEP_KINDS = ["gen:idle>sent", "gen:idle>closed", "f:recv>got", "f:recv>exit", "f:got>send", "f:got>filling", "f:filling>send", "f:send>recv", "f:exit>done",
                  "m:recv>send", "m:recv>exit", "m:send>recv", "m:send>exit", "mclose:close>closed", "s:recv>errsend", "s:recv>write", "s:recv>close",
                  "s:errsend>recv", "s:errsend>free", "s:write>writing", "s:writing>free", "s:writing>errsend", "s:free>recv", "s:close>exit",
                  "e:idle>got", "e:idle>closed"]


def schedules(ctx, R, W, cancel, num, seed):
    d = ctx._spec_dir()
    name = "PacketScanSched_R%dW%d%s" % (R, W, "c" if cancel else "n")
    with open(os.path.join(d, name + ".cfg"), "w") as fh:
        fh.write(SCHED_CFG % {"R": R, "W": W, "NB": R, "CM": 100 * W, "C": "TRUE" if cancel else "FALSE"})
    r = ctx.tlc("PacketScanSched", name, workers=1, timeout=900, simulate="num=%d" % num, depth=60 * (R + 2) + 100,
                deadlock=False, extra=("-seed", str(seed)), quiet=True)
    out = []
    for l in r.out.splitlines():
        m = re.match(r'<<"SCHED", (".*")>>\s*$', l)
        if m:
            out.append(json.loads(json.loads(m.group(1))))
    if len(out) < num * 0.9:
        raise vf.Inconclusive("schedule generation produced %d of %d behaviours:\n%s" % (len(out), num, r.out[-2000:]))
    return out


def keyfn(run, evt):
    return "%s:%s:%s" % ("gate", evt.get("ev"), evt.get("kind", evt.get("what", "")))


def gate_replay(ctx, configs, cancel_every, label="gate"):
    """configs: list of (R, W, n_schedules_with_cancel, n_schedules_without). Returns (runs, events)."""
    binary = ctx.go_build_test("./pkg/scan")
    envs, groups = [], []
    import concurrent.futures
    ctx._spec_dir()
    ex = concurrent.futures.ThreadPoolExecutor(max_workers=8)
    futs = {}
    for (R, W, nc, nn) in configs:
        futs[(R, W)] = (ex.submit(schedules, ctx, R, W, True, nc, ctx.seed * 7 + R * 13 + W) if nc else None,
                        ex.submit(schedules, ctx, R, W, False, nn, ctx.seed * 11 + R * 17 + W) if nn else None)
    for (R, W, nc, nn) in configs:
        sch = []
        for f in futs[(R, W)]:
            if f is not None:
                sch += f.result()
        base = os.path.join(ctx.scratch, "%s-R%dW%d" % (label, R, W))
        vf.write_ndjson(base + "-sched.ndjson", sch)
        envs.append({"VF_SCHEDULES": base + "-sched.ndjson", "VF_OUT_L1": base + "-l1.ndjson", "VF_OUT_OBS": base + "-obs.ndjson",
                     "VF_CANCEL_EVERY": cancel_every})
        groups.append((R, W, base, len(sch)))
    res = vf.go_run_many(ctx, binary, "^TestVfGate$", envs, timeout=1500)
    obs_all, hung, nruns = [], [], 0
    for (rc, out), (R, W, base, ns) in zip(res, groups):
        m = re.search(r"VFGATE runs=(\d+) hung=(\d+)", out)
        extra = vf.crash_events(ctx, rc, out, label)
        if os.path.exists(base + "-obs.ndjson"):
            obs_all += vf.read_ndjson(base + "-obs.ndjson")
        obs_all += extra
        hung += [l for l in out.splitlines() if l.startswith("VFGATE-HUNG")]
        if m:
            nruns += int(m.group(1))
        elif not extra:
            raise vf.Inconclusive("gate harness ended without its summary line:\n" + out[-3000:])
    # verdict: the seam events of every replayed run against PacketScanObs
    trace = os.path.join(ctx.scratch, label + "-obs-all.ndjson")
    vf.write_ndjson(trace, obs_all)
    before = len(ctx.violations)
    n, nev = vf.validate_runs(ctx, "PacketScanObsTrace", trace, keyfn=keyfn, label="gate-driven replay of TLC schedules", timeout=3000)
    violated = len(ctx.violations) > before or ctx.known_hit
    # conformance: every step against the goroutine-level model
    drift = None
    steps = 0

    def l1(R, W, base):
        cfg = "PacketScanL1Trace_R%dW%d" % (R, W)
        with open(os.path.join(ctx._spec_dir(), cfg + ".cfg"), "w") as fh:
            fh.write(L1_CFG % {"R": R, "W": W, "NB": R + 1, "CM": 100 * W})
        ev = vf.read_ndjson(base + "-l1.ndjson")
        ok, info = ctx.tlc_trace("PacketScanL1Trace", base + "-l1.ndjson", cfg=cfg, timeout=3000)
        return cfg, ev, ok, info
    lf = [(R, W, ex.submit(l1, R, W, base)) for (R, W, base, ns) in groups if os.path.exists(base + "-l1.ndjson")]
    kinds = {}
    for R, W, f in lf:
        cfg, ev, ok, info = f.result()
        steps += len(ev)
        for e in ev:
            if e.get("ev") == "Step":
                k = "%s:%s>%s" % (e["p"], e["from"], e["to"])
                kinds[k] = kinds.get(k, 0) + 1
        ctx.cov["traces_validated_against_impl"] += len(vf.split_runs(ev))
        if not ok and drift is None:
            drift = "PacketScanL1Trace (R=%d W=%d) rejects step %d: %s" % (R, W, info["index"], info["event"][:400])
        if ok and os.environ.get("VF_SELFTEST", "1") == "1" and not getattr(ctx, "_l1_selftest", False):
            # binding self-test: the request a worker received is replaced by another one in an accepted run
            runs = [r for r in vf.split_runs(ev) if any(e.get("to") == "got" and e.get("p") == "f" for e in r)]
            if runs:
                bad = json.loads(json.dumps(runs[len(runs) // 2]))
                for e in bad:
                    if e.get("p") == "f" and e.get("to") == "got":
                        e["req"] = e["req"] % R + 1
                        break
                p = os.path.join(ctx.scratch, "selftest-l1.ndjson")
                vf.write_ndjson(p, bad)
                ok2, _ = ctx.tlc_trace("PacketScanL1Trace", p, cfg=cfg, timeout=600)
                if ok2:
                    raise vf.Inconclusive("binding self-test failed: PacketScanL1Trace accepted a run in which a worker received another request than the one generated")
                ctx.step("selftest-PacketScanL1Trace", corrupted="request id of a received request changed", rejected=True)
                ctx._l1_selftest = True
    ctx.count(steps)
    # vacuity: every kind of step the trace specification knows (one per disjunct of TGen / TF / TM / TMClose / TS / TE) was taken by the real code
    never = sorted(set(ALL_STEP_KINDS) - set(kinds))
    ctx.step("gate-replay", configs=[list(c) for c in configs], runs=nruns, steps=steps, seam_events=nev, hung=len(hung),
             cancel_every=cancel_every, step_kinds=kinds, step_kinds_never_taken=never)
    if never and not violated and not drift:
        ctx.notes.append("gate replay: step kinds never taken by the real code in this run: %s" % never)
    if (drift or hung) and not violated:
        raise vf.Inconclusive("the real goroutines no longer follow the goroutine-level model PacketScan step by step (no clause of the "
                              "property is violated on the seam events, so this is model drift, not a verdict): %s %s" % (drift or "", "; ".join(hung)[:1500]))
    return nruns, steps
