"""C05 — probe frames carry exactly the requested fields and are well formed.
Spec: WireBytes.tla (byte-level reference encoders for the four probe kinds: Ethernet II, IPv4 header, TCP with options, UDP, ICMP, ARP, internet
checksums), WireTrace.tla (every frame the real fillers built must be the reference encoding of the request for some in-range random fields)."""
import json
import os
import vf

LEVEL = "exploration"
LEVEL_TEXT = ("TLC re-encodes every recorded request from first principles (WireBytes) and compares byte for byte with the frame the real filler built, the "
              "random fields (ip id, source port, sequence number, icmp id, default icmp payload) being read back from the frame and range-checked: all 2^9 TCP "
              "flag sets through the --flags option table, UDP / ICMP through the commands' option builders (TTL, IP flags, protocol and length overrides, "
              "type / code, payload lengths 0..49 and 1400 incl. odd lengths), ARP, both link modes, one filler shared by 8 goroutines, and the frames the real binary puts on a virtual wire (veth / tun) for every command with its default options. There is no state "
              "space: TLA+ is the executable reference (see DESIGN.md section 8).")
NOTE = ("Trusted: TLC and the reference encoders (validated against frames captured from the real sx on a veth in the design phase); under a length / protocol "
        "override the overridden fields appear verbatim and nothing is demanded of fields that depend on them.")
TECHNIQUE = "TLA+ executable reference (byte-level encoders) evaluated by TLC on frames recorded from the real fillers"
DESIGN_REF = "DESIGN.md section 5, C05"


def run(ctx):
    ctx.cov["rule"] = ("enumerated: 512 TCP flag sets x 2 link modes; UDP/ICMP option grids x payload lengths; 50 ARP; 2 x 2400 concurrent fills of one filler; "
                       "distinct = frames (each a different request / option set); all non-trivial")
    binary = ctx.go_build_test("./command")
    trace = os.path.join(ctx.scratch, "c05-trace.ndjson")
    rc, out = ctx.go_run_test(binary, "^TestVfFill$", env={"VF_OUT": trace, "VERIF_SEED": ctx.seed, "VERIF_TIER": ctx.tier}, timeout=2400)
    if rc != 0:
        ce = vf.crash_events(ctx, rc, out, "fillers")
        ctx.violation("C05:crash", "a packet filler crashed: %s" % ce[1]["text"], replay={"output": out[-20000:]})
        return
    events = vf.read_ndjson(trace)
    ctx.cov["traces_validated_against_impl"] += len(events)
    ctx.count(len(events), [("fill", e["id"]) for e in events])
    # binding self-test: one flipped byte in a frame must be rejected
    probe = json.loads(json.dumps(events[7]))
    probe["bytes"][len(probe["bytes"]) // 2] ^= 1
    p = os.path.join(ctx.scratch, "c05-selftest.ndjson")
    vf.write_ndjson(p, [probe])
    ok, _ = ctx.tlc_trace("WireTrace", p)
    if ok:
        raise vf.Inconclusive("binding self-test failed: WireTrace accepted a frame with a flipped byte")
    ctx.step("selftest", corrupted="one flipped bit in frame 8", rejected=True)
    rest = events
    seen = set()
    while rest:
        p = os.path.join(ctx.scratch, "c05-rest.ndjson")
        vf.write_ndjson(p, rest)
        ok, info = ctx.tlc_trace("WireTrace", p, timeout=3000)
        if ok:
            break
        bad = rest[info["index"] - 1]
        key = "C05:%s:%s" % (bad["kind"], "vpn" if bad["vpn"] else "eth")
        if key not in seen:
            seen.add(key)
            ctx.violation(key, "the %s filler built a frame that is not the encoding of its request: opts=%s req=%s bytes=%s" %
                          (bad["kind"], json.dumps(bad["opts"])[:200], json.dumps(bad["req"]), bad["bytes"][:80]),
                          replay={"property": "C05", "trace_spec": "WireTrace", "run": [bad]})
        if len(seen) >= 6:
            break
        rest = [e for e in rest[:info["index"] - 1] + rest[info["index"]:]]
        # skip further frames of an already reported class quickly
        if len([1 for e in rest if "C05:%s:%s" % (e["kind"], "vpn" if e["vpn"] else "eth") in seen]) > 2000:
            rest = [e for e in rest if "C05:%s:%s" % (e["kind"], "vpn" if e["vpn"] else "eth") not in seen]
    for e in events[:2] + events[-1:]:
        ctx.sample({k: (v if k != "bytes" else v[:60]) for k, v in e.items()})
    # socket-level tier: the frames the real binary puts on the virtual wire (every command's own wiring of interface, --srcip, cache and
    # filler; Ethernet and raw-IP mode) are the reference encodings too
    from checks import wire_tier as wt
    n3, _rej = wt.run_wire(ctx, select=lambda s: s["expect"]["kind"] == "packet" and not s.get("flood") and "chunked" not in s["name"] and "big" not in s["name"],
                           label="c05w", focus="clean")
    fills = wt.fill_events(getattr(ctx, "wire_events", []))
    rest = fills
    reported = set()
    while rest:
        p = os.path.join(ctx.scratch, "c05-wire.ndjson")
        vf.write_ndjson(p, rest)
        ok, info = ctx.tlc_trace("WireTrace", p, timeout=3000)
        if ok:
            break
        bad = rest[info["index"] - 1]
        if bad["run"] not in reported:
            reported.add(bad["run"])
            ctx.violation("C05:wire:%s" % bad["run"], "a probe of the real binary on the virtual wire (scenario %s) is not the encoding of its request: req=%s bytes=%s" %
                          (bad["run"], json.dumps(bad["req"]), bad["bytes"][:80]), replay={"property": "C05", "trace_spec": "WireTrace", "run": [bad]})
        rest = [e for e in rest[info["index"]:] if e["run"] not in reported]
    ctx.cov["traces_validated_against_impl"] += len(fills)
    ctx.count(len(fills), [("wirefill", e["run"], e["id"]) for e in fills])
    ctx.step("wire-fills", frames=len(fills), runs=n3)
