//go:build verif

package command

// C17 harness: runs inside a private network namespace (unshare -n). Each configuration is materialised with
// iproute2 (veth = Ethernet with MAC, tun = no hardware address), read back as the kernel reports it, and the
// real getScanRange decides. IfaceTrace.tla checks the decision against the selection relation.

import (
	"encoding/json"
	"fmt"
	"net"
	"os"
	"os/exec"
	"strings"
	"testing"
)

type vfIfSpec struct {
	Kind  string   `json:"kind"`  // veth | tun
	Addrs []string `json:"addrs"` // abstract nets: A24 A16 B24 V6
}
type vfIfaceScen struct {
	ID      int        `json:"id"`
	Ifs     []vfIfSpec `json:"ifs"`
	Routes  [][2]int   `json:"routes"` // [interface (1-based), metric]
	FIface  int        `json:"fIface"`
	FSrcIP  bool       `json:"fSrcIP"`
	FSrcV6  bool       `json:"fSrcV6"`
	FSrcMAC bool       `json:"fSrcMAC"`
	Target  string     `json:"target"` // inA24 inA16only inB24 remote none
}

func vfIP(args ...string) error {
	out, err := exec.Command("ip", args...).CombinedOutput()
	if err != nil {
		return fmt.Errorf("ip %s: %v: %s", strings.Join(args, " "), err, out)
	}
	return nil
}

var vfAddrOf = map[string]func(i int) string{
	"A24": func(i int) string { return fmt.Sprintf("10.1.0.%d/24", 10+i) },
	"A16": func(i int) string { return fmt.Sprintf("10.1.9.%d/16", 10+i) },
	"B24": func(i int) string { return fmt.Sprintf("10.2.0.%d/24", 10+i) },
	"V6":  func(i int) string { return fmt.Sprintf("fd00:%d::1/64", 10+i) },
}

func vfClassOf(ipn *net.IPNet) string {
	if ipn.IP.To4() == nil {
		return "V6"
	}
	ones, _ := ipn.Mask.Size()
	switch {
	case ipn.IP.To4()[0] == 10 && ipn.IP.To4()[1] == 1 && ones == 24:
		return "A24"
	case ipn.IP.To4()[0] == 10 && ipn.IP.To4()[1] == 1 && ones == 16:
		return "A16"
	case ipn.IP.To4()[0] == 10 && ipn.IP.To4()[1] == 2:
		return "B24"
	}
	return "?" + ipn.String()
}

func TestVfIface(t *testing.T) {
	out := vfOpenOut(t, "VF_OUT")
	defer out.close()
	if _, err := net.InterfaceByName("eth0"); err == nil {
		t.Fatal("not in a private network namespace")
	}
	targets := map[string]string{"inA24": "10.1.0.0/28", "inA16only": "10.1.200.0/28", "inB24": "10.2.0.64/26", "remote": "192.0.2.0/28"}
	n := 0
	vfReadNDJSON(t, os.Getenv("VF_SCENARIOS"), func(raw json.RawMessage) {
		var sc vfIfaceScen
		if err := json.Unmarshal(raw, &sc); err != nil {
			t.Fatal(err)
		}
		names := []string{}
		cleanup := func() {
			for i, s := range sc.Ifs {
				if s.Kind == "veth" {
					_ = vfIP("link", "del", fmt.Sprintf("vf%d", i+1))
				} else {
					_ = vfIP("tuntap", "del", "dev", fmt.Sprintf("vf%d", i+1), "mode", "tun")
				}
			}
		}
		defer cleanup()
		for i, s := range sc.Ifs {
			name := fmt.Sprintf("vf%d", i+1)
			names = append(names, name)
			var err error
			if s.Kind == "veth" {
				err = vfIP("link", "add", name, "type", "veth", "peer", "name", name+"p")
			} else {
				err = vfIP("tuntap", "add", "dev", name, "mode", "tun")
			}
			if err != nil {
				t.Fatal(err)
			}
			// keep the kernel from adding link-local addresses on its own: the configuration is exactly what is listed
			_ = os.WriteFile("/proc/sys/net/ipv6/conf/"+name+"/addr_gen_mode", []byte("1"), 0o644)
			for _, a := range s.Addrs {
				args := []string{"addr", "add", vfAddrOf[a](i), "dev", name}
				if a == "V6" {
					args = append(args, "nodad")
				}
				if err := vfIP(args...); err != nil {
					t.Fatal(err)
				}
			}
			if err := vfIP("link", "set", name, "up"); err != nil {
				t.Fatal(err)
			}
			if s.Kind == "veth" {
				_ = vfIP("link", "set", name+"p", "up")
			}
		}
		for _, r := range sc.Routes {
			if err := vfIP("route", "add", "default", "dev", names[r[0]-1], "metric", fmt.Sprint(r[1])); err != nil {
				t.Fatal(err)
			}
		}
		// read the configuration back the way sx will see it (interface order by index, address order as reported)
		ifaces, _ := net.Interfaces()
		idx := map[string]int{}
		cfgIfs := []map[string]interface{}{}
		var real []net.Interface
		for _, ifc := range ifaces {
			if !strings.HasPrefix(ifc.Name, "vf") || strings.HasSuffix(ifc.Name, "p") {
				continue
			}
			addrs, _ := ifc.Addrs()
			cls := []string{}
			for _, a := range addrs {
				if ipn, ok := a.(*net.IPNet); ok {
					cls = append(cls, vfClassOf(ipn))
				}
			}
			real = append(real, ifc)
			idx[ifc.Name] = len(real)
			cfgIfs = append(cfgIfs, map[string]interface{}{"mac": len(ifc.HardwareAddr) > 0, "addrs": cls, "name": ifc.Name})
		}
		routes := [][]int{}
		for _, r := range sc.Routes {
			routes = append(routes, []int{idx[names[r[0]-1]], r[1]})
		}
		fIface := 0
		o := &packetScanCmdOpts{}
		flagIP := net.IPv4(10, 9, 9, 9)
		flagMAC := net.HardwareAddr{2, 9, 9, 9, 9, 9}
		// the flags go through the command's own parseRawOptions (--iface by name, --srcmac as text); --srcip is a pflag IP value
		if sc.FIface > 0 {
			o.rawInterface = names[sc.FIface-1]
			fIface = idx[names[sc.FIface-1]]
		}
		if sc.FSrcMAC {
			o.rawSrcMAC = flagMAC.String()
		}
		if err := o.parseRawOptions(); err != nil {
			t.Fatalf("parseRawOptions: %v", err)
		}
		if sc.FSrcIP {
			o.srcIP = flagIP
			if sc.FSrcV6 {
				o.srcIP = net.ParseIP("2001:db8::7")
			}
		}
		var dst *net.IPNet
		if sc.Target != "none" {
			_, dst, _ = net.ParseCIDR(targets[sc.Target])
		}
		ev := map[string]interface{}{"ev": "Select", "id": sc.ID,
			"cfg": map[string]interface{}{"ifs": cfgIfs, "routes": routes, "fIface": fIface, "fSrcIP": sc.FSrcIP, "fSrcV6": sc.FSrcIP && sc.FSrcV6, "fSrcMAC": sc.FSrcMAC, "target": sc.Target}}
		res := map[string]interface{}{"err": "none", "iface": 0, "src": []int{0, 0}, "mac": "none", "vpn": false}
		r, err := o.getScanRange(dst)
		switch {
		case err == errSrcInterface:
			res["err"] = "no interface"
		case err == errSrcIP:
			res["err"] = "no IPv4 source"
		case err != nil:
			res["err"] = "other:" + err.Error()
		default:
			i := idx[r.Interface.Name]
			res["iface"] = i
			if r.SrcIP == nil {
				res["err"] = "empty source accepted" // a frame would carry no source address
			} else if sc.FSrcIP && r.SrcIP.Equal(flagIP) {
				res["src"] = []int{0, 0}
			} else {
				k := 0
				addrs, _ := real[i-1].Addrs()
				for j, a := range addrs {
					if ipn, ok := a.(*net.IPNet); ok && ipn.IP.Equal(r.SrcIP) {
						k = j + 1
						break
					}
				}
				if k == 0 {
					res["err"] = "foreign source " + r.SrcIP.String()
				}
				res["src"] = []int{i, k}
			}
			switch {
			case r.SrcMAC == nil || len(r.SrcMAC) == 0:
				res["mac"] = "none"
			case sc.FSrcMAC && r.SrcMAC.String() == flagMAC.String():
				res["mac"] = "flag"
			case r.SrcMAC.String() == real[i-1].HardwareAddr.String():
				res["mac"] = "iface"
			default:
				res["mac"] = "foreign:" + r.SrcMAC.String()
			}
			res["vpn"] = r.SrcMAC == nil // parseOptions: scanRange.SrcMAC == nil selects VPN mode
		}
		ev["out"] = res
		out.write([]map[string]interface{}{ev})
		n++
	})
	fmt.Printf("VF_RUNS=%d\n", n)
}
