------------------------------ MODULE ErrMerge ------------------------------
(* pkg/scan/engine.go mergeErrChan: one multiplexer goroutine per input, a     *)
(* closer goroutine `wg.Wait(); close(out)`, writeError = select{ctx.Done, out<-e}. *)
(* Inputs are fed and closed by the environment (sender / receiver).            *)
EXTENDS Integers, Sequences, FiniteSets, TLC
CONSTANTS NIn,      \* number of input channels (2 in PacketEngine.Start)
          NItems,   \* items per input
          CapOut,   \* capacity of out (100 in the code)
          Bug       \* "none"; "closeOnCtx": the closer also closes out on ctx.Done (regression model: must FAIL NoPanic)
In == 1..NIn
VARIABLES ctx, fed, inq, inClosed, mx, out, outClosed, got, panic
vars == <<ctx, fed, inq, inClosed, mx, out, outClosed, got, panic>>
Init == /\ ctx = FALSE /\ fed = [c \in In |-> 0] /\ inq = [c \in In |-> <<>>] /\ inClosed = [c \in In |-> FALSE]
        /\ mx = [c \in In |-> [pc |-> "recv", item |-> <<0, 0>>]]
        /\ out = <<>> /\ outClosed = FALSE /\ got = <<>> /\ panic = FALSE
Feed(c) == /\ fed[c] < NItems /\ ~inClosed[c] /\ Len(inq[c]) < 1
           /\ fed' = [fed EXCEPT ![c] = @ + 1] /\ inq' = [inq EXCEPT ![c] = Append(@, <<c, fed[c] + 1>>)]
           /\ UNCHANGED <<ctx, inClosed, mx, out, outClosed, got, panic>>
CloseIn(c) == /\ ~inClosed[c] /\ (fed[c] = NItems \/ ctx) /\ inClosed' = [inClosed EXCEPT ![c] = TRUE]
              /\ UNCHANGED <<ctx, fed, inq, mx, out, outClosed, got, panic>>
MRecv(c) == /\ mx[c].pc = "recv"
            /\ \/ /\ ctx /\ mx' = [mx EXCEPT ![c].pc = "exit"] /\ UNCHANGED inq
               \/ /\ inq[c] = <<>> /\ inClosed[c] /\ mx' = [mx EXCEPT ![c].pc = "exit"] /\ UNCHANGED inq
               \/ /\ inq[c] # <<>> /\ mx' = [mx EXCEPT ![c] = [pc |-> "send", item |-> Head(inq[c])]]
                  /\ inq' = [inq EXCEPT ![c] = Tail(@)]
            /\ UNCHANGED <<ctx, fed, inClosed, out, outClosed, got, panic>>
\* writeError: select { case <-ctx.Done(): ; case out <- e: }  -- a send on a closed channel panics
MSend(c) == /\ mx[c].pc = "send"
            /\ \/ /\ ctx /\ UNCHANGED <<out, panic>>
               \/ /\ outClosed /\ panic' = TRUE /\ UNCHANGED out
               \/ /\ ~outClosed /\ Len(out) < CapOut /\ out' = Append(out, mx[c].item) /\ UNCHANGED panic
            /\ mx' = [mx EXCEPT ![c] = [pc |-> "recv", item |-> <<0, 0>>]]
            /\ UNCHANGED <<ctx, fed, inq, inClosed, outClosed, got>>
Closer == /\ ~outClosed
          /\ \/ \A c \in In : mx[c].pc = "exit"
             \/ (Bug = "closeOnCtx" /\ ctx)
          /\ outClosed' = TRUE
          /\ UNCHANGED <<ctx, fed, inq, inClosed, mx, out, got, panic>>
Consume == /\ out # <<>> /\ got' = Append(got, Head(out)) /\ out' = Tail(out)
           /\ UNCHANGED <<ctx, fed, inq, inClosed, mx, outClosed, panic>>
Cancel == /\ ~ctx /\ ctx' = TRUE /\ UNCHANGED <<fed, inq, inClosed, mx, out, outClosed, got, panic>>
Next == Closer \/ Consume \/ Cancel \/ \E c \in In : Feed(c) \/ CloseIn(c) \/ MRecv(c) \/ MSend(c)
Spec == Init /\ [][Next]_vars /\ WF_vars(Closer) /\ WF_vars(Consume) /\ \A c \in In : WF_vars(Feed(c) \/ CloseIn(c) \/ MRecv(c) \/ MSend(c))
NoPanic == ~panic
Set(q) == {q[i] : i \in 1..Len(q)}
\* nothing duplicated or invented, per-input order kept; without cancel everything is delivered before the stream ends
NoDupNoInvent == /\ \A i, j \in 1..Len(got) : i # j => got[i] # got[j]
                 /\ \A i \in 1..Len(got) : got[i][2] <= fed[got[i][1]]
                 /\ \A i, j \in 1..Len(got) : (i < j /\ got[i][1] = got[j][1]) => got[i][2] < got[j][2]
AllDelivered == (outClosed /\ out = <<>> /\ ~ctx) => Set(got) = {<<c, k>> : c \in In, k \in 1..NItems}
Ends == <>(outClosed)
CancelEnds == ctx ~> outClosed
=============================================================================
