-------------------------------- MODULE Runner --------------------------------
(* command/root.go startScanEngine around a packet engine: exit delay, late replies, SIGINT.   *)
(* Explicit time: `now` advances by Tick; a deadline is a time, and a waiting goroutine may    *)
(* act at any time >= its deadline (never before).                                              *)
EXTENDS Integers, Sequences, FiniteSets, TLC
CONSTANTS Delay, MaxT, Probes, AllowSigInt, CancelOnDone    \* CancelOnDone = TRUE models the mutant "cancel as soon as done"
VARIABLES now, sent, doneAt, timerAt, cancelAt, ctx, rcv, replies, printed, lg, returnedAt, results
vars == <<now, sent, doneAt, timerAt, cancelAt, ctx, rcv, replies, printed, lg, returnedAt, results>>
Init == /\ now = 0 /\ sent = 0 /\ doneAt = -1 /\ timerAt = -1 /\ cancelAt = -1 /\ ctx = FALSE /\ rcv = "run"
        /\ replies = {} /\ printed = {} /\ lg = "run" /\ returnedAt = -1 /\ results = <<>>
\* bounded horizon: the clock does not run past MaxT - Delay before the delay timer has been armed (otherwise the timer could never fire inside the model)
Tick == now < MaxT /\ (now < MaxT - Delay \/ timerAt # -1 \/ ctx) /\ now' = now + 1 /\ UNCHANGED <<sent, doneAt, timerAt, cancelAt, ctx, rcv, replies, printed, lg, returnedAt, results>>
Send == /\ sent < Probes /\ ~ctx /\ sent' = sent + 1
        /\ UNCHANGED <<now, doneAt, timerAt, cancelAt, ctx, rcv, replies, printed, lg, returnedAt, results>>
Done == /\ doneAt = -1 /\ (sent = Probes \/ ctx) /\ doneAt' = now          \* sender: close(done)
        /\ UNCHANGED <<now, sent, timerAt, cancelAt, ctx, rcv, replies, printed, lg, returnedAt, results>>
\* goroutine: <-done; <-time.After(exitDelay); cancel()
SeeDone == /\ doneAt # -1 /\ timerAt = -1 /\ timerAt' = now + (IF CancelOnDone THEN 0 ELSE Delay)
           /\ UNCHANGED <<now, sent, doneAt, cancelAt, ctx, rcv, replies, printed, lg, returnedAt, results>>
Fire == /\ timerAt # -1 /\ now >= timerAt /\ cancelAt = -1 /\ cancelAt' = now /\ ctx' = TRUE
        /\ UNCHANGED <<now, sent, doneAt, timerAt, rcv, replies, printed, lg, returnedAt, results>>
SigInt == /\ AllowSigInt /\ ~ctx /\ ctx' = TRUE /\ cancelAt' = now
          /\ UNCHANGED <<now, sent, doneAt, timerAt, rcv, replies, printed, lg, returnedAt, results>>
\* a reply-shaped frame for probe p arrives at the socket (any time after the probe left)
Reply(p) == /\ p \in 1..sent /\ <<p, now>> \notin replies /\ (\A r \in replies : r[1] # p) /\ replies' = replies \cup {<<p, now>>}
            /\ results' = IF rcv = "run" THEN Append(results, p) ELSE results          \* receiver still reading: processed and queued
            /\ UNCHANGED <<now, sent, doneAt, timerAt, cancelAt, ctx, rcv, printed, lg, returnedAt>>
RcvExit == rcv = "run" /\ ctx /\ rcv' = "exit" /\ UNCHANGED <<now, sent, doneAt, timerAt, cancelAt, ctx, replies, printed, lg, returnedAt, results>>
Log == /\ lg = "run"
       /\ \/ results # <<>> /\ printed' = printed \cup {Head(results)} /\ results' = Tail(results) /\ UNCHANGED lg
          \/ ctx /\ lg' = "exit" /\ UNCHANGED <<printed, results>>
       /\ UNCHANGED <<now, sent, doneAt, timerAt, cancelAt, ctx, rcv, replies, returnedAt>>
Return == /\ lg = "exit" /\ rcv = "exit" /\ returnedAt = -1 /\ returnedAt' = now
          /\ UNCHANGED <<now, sent, doneAt, timerAt, cancelAt, ctx, rcv, replies, printed, lg, results>>
Next == Tick \/ Send \/ Done \/ SeeDone \/ Fire \/ SigInt \/ RcvExit \/ Log \/ Return \/ \E p \in 1..Probes : Reply(p)
Spec == Init /\ [][Next]_vars /\ WF_vars(Send \/ Done \/ SeeDone \/ Fire \/ RcvExit \/ Log \/ Return) /\ WF_vars(Tick)
(* C16 *)
NoEarlyCancel == (cancelAt # -1 /\ ~AllowSigInt) => cancelAt >= doneAt + Delay /\ doneAt # -1
NoEarlyExit == (returnedAt # -1 /\ ~AllowSigInt) => returnedAt >= doneAt + Delay
\* a reply that arrived before the delay was over has been handed to the result stream (whether it is also printed is C08's DelayLongEnough)
LateReplyTaken == \A r \in replies : (doneAt # -1 /\ r[2] < doneAt + Delay /\ ~AllowSigInt) =>
                     (r[1] \in printed \/ \E i \in 1..Len(results) : results[i] = r[1])
Exits == <>(returnedAt # -1)
===============================================================================
